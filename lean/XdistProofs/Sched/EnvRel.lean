import XdistProofs.Sched.WireAll
import XdistProofs.Contract.Wire
/-!
  A frame principle for all six schedulers: **whatever relation between environments is reflexive, transitive and holds for a
  send, for `WorkerController.shutdown()` and for appending collection reports, holds between the environment before and after
  every scheduler call** (`step_envRel` per scheduler, `Sched.any_step_envRel` for the six).  Instances: the `_down` and `broken`
  flags never change, `_shutdown_sent` only ever becomes true, the wire log only grows.
-/
namespace Xdist
open Xdist Xdist.Contract

/-- a relation between the environment before and after that the primitive effects satisfy -/
structure EnvRel (R : Env → Env → Prop) : Prop where
  refl : ∀ e, R e e
  trans : ∀ {a b c}, R a b → R b c → R a c
  send : ∀ {e e' : Env} {n : Nat} {o : SOut}, e.send n o = .ok e' → R e e'
  shutdown : ∀ (e : Env) (n : Nat), R e (e.shutdown n)
  reports : ∀ (e : Env) (ds : List SOut), (∀ o ∈ ds, cmdNode o = none) → R e { e with outs := e.outs ++ ds }

theorem EnvRel.shutdownAll {R : Env → Env → Prop} (hR : EnvRel R) (ns : List Nat) : ∀ e : Env, R e (e.shutdownAll ns) := by
  induction ns with
  | nil => intro e; exact hR.refl e
  | cons n t ih => intro e; exact hR.trans (hR.shutdown e n) (ih _)

variable {R : Env → Env → Prop}

namespace Load
variable {τ : Type} [DecidableEq τ]

omit [DecidableEq τ] in
theorem sendTests_rel (hR : EnvRel R) {s s' : State τ} {e e' : Env} {n : Nat} {num : Int} (h : sendTests s e n num = .ok (s', e')) :
    R e e' := by
  unfold sendTests at h
  simp only at h
  split at h
  · simp only [Except.ok.injEq, Prod.mk.injEq] at h; obtain ⟨_, rfl⟩ := h; exact hR.refl e
  · obtain ⟨book, _, h⟩ := bind_ok.1 h
    obtain ⟨e1, he1, h⟩ := bind_ok.1 h
    simp only [Except.ok.injEq, Prod.mk.injEq] at h
    obtain ⟨_, rfl⟩ := h
    exact hR.send he1

theorem checkSchedule_rel (hR : EnvRel R) {s s' : State τ} {e e' : Env} {n : Nat} {slow : Bool}
    (h : checkSchedule s e n slow = .ok (s', e')) : R e e' := by
  unfold checkSchedule at h
  by_cases hsd : e.flags.shuttingDown n = true
  · simp [hsd] at h; obtain ⟨_, rfl⟩ := h; exact hR.refl e
  · simp only [hsd] at h
    by_cases hpe : s.pending.isEmpty = true
    · simp [hpe] at h; obtain ⟨_, rfl⟩ := h
      exact hR.shutdown e n
    · simp only [hpe] at h
      by_cases hz : s.node2pending.length = 0
      · simp [hz] at h
      · simp only [hz] at h
        cases hb : s.node2pending.get n with
        | error err => simp [hb, bind, Except.bind] at h
        | ok book =>
          simp only [hb, bind, Except.bind] at h
          by_cases hlt : book.length < max 2 (s.pending.length / s.node2pending.length / 4)
          · simp only [hlt] at h
            by_cases hsl : (slow && decide (book.length ≥ 2)) = true
            · simp [hsl] at h; obtain ⟨_, rfl⟩ := h; exact hR.refl e
            · simp only [hsl] at h
              cases hm : s.maxschedchunk with
              | none => simp [hm] at h
              | some msc =>
                simp only [hm] at h
                exact sendTests_rel hR h
          · simp [hlt] at h; obtain ⟨_, rfl⟩ := h; exact hR.refl e

theorem checkAll_rel (hR : EnvRel R) {ns : List Nat} : ∀ {s s' : State τ} {e e' : Env}, checkAll s e ns = .ok (s', e') → R e e' := by
  induction ns with
  | nil =>
    intro s s' e e' h
    simp only [checkAll, Except.ok.injEq, Prod.mk.injEq] at h
    obtain ⟨_, rfl⟩ := h; exact hR.refl e
  | cons n t ih =>
    intro s s' e e' h
    simp only [checkAll] at h
    obtain ⟨⟨s1, e1⟩, h1, h2⟩ := bind_ok.1 h
    exact hR.trans (checkSchedule_rel hR h1) (ih h2)

omit [DecidableEq τ] in
theorem sendEach_rel (hR : EnvRel R) {num : Int} {ns : List Nat} : ∀ {s s' : State τ} {e e' : Env}, sendEach s e num ns = .ok (s', e') →
    R e e' := by
  induction ns with
  | nil =>
    intro s s' e e' h
    simp only [sendEach, Except.ok.injEq, Prod.mk.injEq] at h
    obtain ⟨_, rfl⟩ := h; exact hR.refl e
  | cons n t ih =>
    intro s s' e e' h
    simp only [sendEach] at h
    obtain ⟨⟨s1, e1⟩, h1, h2⟩ := bind_ok.1 h
    exact hR.trans (sendTests_rel hR h1) (ih h2)

omit [DecidableEq τ] in
theorem roundRobin_rel (hR : EnvRel R) {ns : List Nat} {k : Nat} : ∀ {i : Nat} {s s' : State τ} {e e' : Env},
    roundRobin ns s e k i = .ok (s', e') → R e e' := by
  induction k with
  | zero =>
    intro i s s' e e' h
    simp only [roundRobin, Except.ok.injEq, Prod.mk.injEq] at h
    obtain ⟨_, rfl⟩ := h; exact hR.refl e
  | succ k ih =>
    intro i s s' e e' h
    simp only [roundRobin] at h
    split at h
    · cases h
    · obtain ⟨⟨s1, e1⟩, h1, h2⟩ := bind_ok.1 h
      exact hR.trans (sendTests_rel hR h1) (ih h2)

omit [DecidableEq τ] in
theorem initialSend_rel (hR : EnvRel R) {s s' : State τ} {e e' : Env} {n : Nat} {msc : Int} (h : initialSend s e n msc = .ok (s', e')) :
    R e e' := by
  unfold initialSend at h
  obtain ⟨⟨s3, e3⟩, hsend, h⟩ := bind_ok.1 h
  have h3 : R e e3 := by
    unfold initialDistribute at hsend
    dsimp only at hsend
    split at hsend
    · exact roundRobin_rel hR hsend
    · split at hsend
      · cases hsend
      · exact sendEach_rel hR hsend
  split at h
  · simp only [Except.ok.injEq, Prod.mk.injEq] at h; obtain ⟨_, rfl⟩ := h
    exact hR.trans h3 (hR.shutdownAll _ _)
  · simp only [Except.ok.injEq, Prod.mk.injEq] at h; obtain ⟨_, rfl⟩ := h
    exact h3

theorem diffs_reports (first : Nat) (col : List τ) (rest : AList Nat (List τ)) :
    ∀ o ∈ collectionDiffs first col rest, cmdNode o = none := by
  intro o ho
  unfold collectionDiffs at ho
  obtain ⟨p, _, rfl⟩ := List.mem_map.1 ho
  rfl

theorem step_envRel (hR : EnvRel R) {s s' : State τ} {e e' : Env} {op : SOp τ} {r : Option τ} (h : step s e op = .ok (s', e', r)) :
    R e e' := by
  cases op with
  | addNode n =>
    simp only [step] at h
    obtain ⟨s1, _, h2⟩ := map_ok.1 h
    simp at h2; obtain ⟨_, rfl, _⟩ := h2; exact hR.refl e
  | addNodeCollection n c =>
    simp only [step] at h
    obtain ⟨s1, _, h2⟩ := map_ok.1 h
    simp at h2; obtain ⟨_, rfl, _⟩ := h2; exact hR.refl e
  | schedule =>
    simp only [step] at h
    obtain ⟨⟨s1, e1⟩, h1, h2⟩ := map_ok.1 h
    simp at h2; obtain ⟨_, rfl, _⟩ := h2
    unfold schedule at h1
    split at h1
    · cases h1
    · cases hcn : s.collection with
      | some col => simp only [hcn] at h1; exact checkAll_rel hR h1
      | none =>
        simp only [hcn] at h1
        split at h1
        · cases h1
        · rename_i first col rest hreg
          unfold scheduleFirst at h1
          simp only at h1
          have hd := hR.reports e _ (diffs_reports first col rest)
          split at h1
          · simp only [Except.ok.injEq, Prod.mk.injEq] at h1; obtain ⟨_, rfl⟩ := h1; exact hd
          · split at h1
            · simp only [Except.ok.injEq, Prod.mk.injEq] at h1; obtain ⟨_, rfl⟩ := h1; exact hd
            · exact hR.trans hd (initialSend_rel hR h1)
  | markComplete n i slow =>
    simp only [step] at h
    obtain ⟨⟨s1, e1⟩, h1, h2⟩ := map_ok.1 h
    simp at h2; obtain ⟨_, rfl, _⟩ := h2
    unfold markComplete at h1
    obtain ⟨book, _, h1⟩ := bind_ok.1 h1
    obtain ⟨book', _, h1⟩ := bind_ok.1 h1
    exact checkSchedule_rel hR h1
  | markPending t =>
    simp only [step] at h
    obtain ⟨⟨s1, e1⟩, h1, h2⟩ := map_ok.1 h
    simp at h2; obtain ⟨_, rfl, _⟩ := h2
    unfold markPending at h1
    split at h1
    · cases h1
    · obtain ⟨idx, _, h1⟩ := bind_ok.1 h1
      exact checkAll_rel hR h1
  | removePending n is => simp [step] at h
  | removeNode n =>
    simp only [step] at h
    unfold removeNode at h
    obtain ⟨⟨book, n2p⟩, _, h⟩ := bind_ok.1 h
    simp only at h
    split at h
    · simp only [Except.ok.injEq, Prod.mk.injEq] at h; obtain ⟨_, rfl, _⟩ := h; exact hR.refl e
    · split at h
      · cases h
      · split at h
        · cases h
        · obtain ⟨⟨s3, e3⟩, h3, h⟩ := bind_ok.1 h
          simp only [Except.ok.injEq, Prod.mk.injEq] at h
          obtain ⟨_, rfl, _⟩ := h
          exact checkAll_rel hR h3

end Load

namespace Each
variable {τ : Type} [DecidableEq τ]

theorem afterSend_rel (hR : EnvRel R) (e : Env) (n : Nat) (o : SOut) : R e (afterSend e n o) := by
  unfold afterSend
  split
  · exact hR.refl e
  · split
    · exact hR.refl e
    · rename_i hb
      have : e.send n o = .ok (e.emit o) := by unfold Env.send; simp [hb]
      exact hR.send this

theorem takeOver_rel (hR : EnvRel R) (spec : Nat → Nat) {n : Nat} {c : List τ} (l : AList Nat (List Nat)) :
    ∀ {s s' : State τ} {e e' : Env}, takeOver spec s e n c l = .ok (s', e') → R e e' := by
  induction l with
  | nil =>
    intro s s' e e' h
    simp only [takeOver, nothingToTakeOver, Except.ok.injEq, Prod.mk.injEq] at h
    obtain ⟨_, rfl⟩ := h
    exact hR.shutdown e n
  | cons p rest ih =>
    intro s s' e e' h
    obtain ⟨dead, pend⟩ := p
    simp only [takeOver] at h
    split at h
    · obtain ⟨deadCol, _, h⟩ := bind_ok.1 h
      split at h
      · simp only [nothingToTakeOver, Except.ok.injEq, Prod.mk.injEq] at h
        obtain ⟨_, rfl⟩ := h
        exact hR.shutdown e n
      · simp only [Except.ok.injEq, Prod.mk.injEq] at h
        obtain ⟨_, rfl⟩ := h
        exact hR.refl e
    · exact ih h

theorem scheduleLoop_rel (hR : EnvRel R) (l : List Nat) : ∀ {s s' : State τ} {e e' : Env}, scheduleLoop s e l = .ok (s', e') → R e e' := by
  induction l with
  | nil =>
    intro s s' e e' h
    simp only [scheduleLoop, Except.ok.injEq, Prod.mk.injEq] at h
    obtain ⟨_, rfl⟩ := h; exact hR.refl e
  | cons n t ih =>
    intro s s' e e' h
    by_cases hst : s.started.contains n = true
    · rw [scheduleLoop] at h
      simp only [hst, if_true] at h
      exact ih h
    · have hst' : s.started.contains n = false := by simpa using hst
      by_cases hcc : s.node2collection.contains n = true
      · cases hget : s.node2pending.get n with
        | error err =>
          rw [scheduleLoop] at h
          have hnm : n ∉ s.started := by simpa using hst'
          simp [hnm, hcc, hget, bind, Except.bind] at h
        | ok book =>
          rw [scheduleLoop_cons s e n t book hst' hcc hget] at h
          split at h
          · split at h
            · exact hR.trans (hR.trans (afterSend_rel hR e n _) (hR.shutdown _ n)) (ih h)
            · cases h
          · exact hR.trans (afterSend_rel hR e n _) (ih h)
      · rw [scheduleLoop] at h
        simp only [hst', Bool.false_eq_true, if_false, hcc, Bool.not_false, if_true] at h
        exact ih h

theorem step_envRel (hR : EnvRel R) (spec : Nat → Nat) {s s' : State τ} {e e' : Env} {op : SOp τ} {r : Option τ}
    (h : step spec s e op = .ok (s', e', r)) : R e e' := by
  cases op with
  | addNode n =>
    simp only [step] at h
    obtain ⟨s1, _, h2⟩ := map_ok.1 h
    simp at h2; obtain ⟨_, rfl, _⟩ := h2; exact hR.refl e
  | addNodeCollection n c =>
    simp only [step] at h
    obtain ⟨⟨s1, e1⟩, h1, h2⟩ := map_ok.1 h
    simp at h2; obtain ⟨_, rfl, _⟩ := h2
    unfold addNodeCollection at h1
    split at h1
    · cases h1
    · split at h1
      · simp only [Except.ok.injEq, Prod.mk.injEq] at h1; obtain ⟨_, rfl⟩ := h1; exact hR.refl e
      · exact takeOver_rel hR spec _ h1
  | schedule =>
    simp only [step] at h
    obtain ⟨⟨s1, e1⟩, h1, h2⟩ := map_ok.1 h
    simp at h2; obtain ⟨_, rfl, _⟩ := h2
    unfold schedule at h1
    split at h1
    · cases h1
    · exact scheduleLoop_rel hR _ h1
  | markComplete n i slow =>
    simp only [step] at h
    obtain ⟨s1, _, h2⟩ := map_ok.1 h
    simp at h2; obtain ⟨_, rfl, _⟩ := h2; exact hR.refl e
  | markPending t => simp [step] at h
  | removePending n is => simp [step] at h
  | removeNode n =>
    simp only [step] at h
    obtain ⟨p, _, h2⟩ := map_ok.1 h
    simp at h2; obtain ⟨_, rfl, _⟩ := h2; exact hR.refl e

end Each

namespace WorkSteal
variable {τ : Type} [DecidableEq τ]

omit [DecidableEq τ] in
theorem sendTests_rel (hR : EnvRel R) {s s' : State τ} {e e' : Env} {n num : Nat} (h : sendTests s e n num = .ok (s', e')) : R e e' := by
  unfold sendTests at h
  simp only at h
  split at h
  · simp only [Except.ok.injEq, Prod.mk.injEq] at h; obtain ⟨_, rfl⟩ := h; exact hR.refl e
  · obtain ⟨book, _, h⟩ := bind_ok.1 h
    obtain ⟨e1, he1, h⟩ := bind_ok.1 h
    simp only [Except.ok.injEq, Prod.mk.injEq] at h
    obtain ⟨_, rfl⟩ := h
    exact hR.send he1

omit [DecidableEq τ] in
theorem distribute_rel (hR : EnvRel R) (l : List Nat) : ∀ {s s' : State τ} {e e' : Env}, distribute s e l = .ok (s', e') → R e e' := by
  induction l with
  | nil =>
    intro s s' e e' h
    simp only [distribute, Except.ok.injEq, Prod.mk.injEq] at h
    obtain ⟨_, rfl⟩ := h; exact hR.refl e
  | cons n t ih =>
    intro s s' e e' h
    simp only [distribute] at h
    obtain ⟨⟨s1, e1⟩, h1, h2⟩ := bind_ok.1 h
    exact hR.trans (sendTests_rel hR h1) (ih h2)

omit [DecidableEq τ] in
theorem stealOrShutdown_rel (hR : EnvRel R) {s s' : State τ} {e e' : Env} {up : AList Nat (List Nat)} {idle : List Nat}
    (h : stealOrShutdown s e up idle = .ok (s', e')) : R e e' := by
  unfold stealOrShutdown at h
  split at h
  · simp only [Except.ok.injEq, Prod.mk.injEq] at h; obtain ⟨_, rfl⟩ := h; exact hR.refl e
  · split at h
    · simp only [Except.ok.injEq, Prod.mk.injEq] at h; obtain ⟨_, rfl⟩ := h
      exact hR.shutdownAll _ _
    · simp only at h
      split at h
      · simp only [Except.ok.injEq, Prod.mk.injEq] at h; obtain ⟨_, rfl⟩ := h
        exact hR.shutdownAll _ _
      · obtain ⟨e2, he2, h⟩ := bind_ok.1 h
        simp only [Except.ok.injEq, Prod.mk.injEq] at h; obtain ⟨_, rfl⟩ := h
        exact hR.send he2

omit [DecidableEq τ] in
theorem checkSchedule_rel (hR : EnvRel R) {s s' : State τ} {e e' : Env} (h : checkSchedule s e = .ok (s', e')) : R e e' := by
  unfold checkSchedule at h
  split at h
  · simp only [Except.ok.injEq, Prod.mk.injEq] at h; obtain ⟨_, rfl⟩ := h; exact hR.refl e
  · simp only at h
    split at h
    · simp only [Except.ok.injEq, Prod.mk.injEq] at h; obtain ⟨_, rfl⟩ := h; exact hR.refl e
    · split at h
      · exact stealOrShutdown_rel hR h
      · obtain ⟨r, hr, h⟩ := bind_ok.1 h
        have h1 := distribute_rel hR _ (show distribute s e _ = .ok (r.1, r.2) from hr)
        split at h
        · simp only [Except.ok.injEq, Prod.mk.injEq] at h; obtain ⟨_, rfl⟩ := h; exact h1
        · exact hR.trans h1 (stealOrShutdown_rel hR h)

theorem step_envRel (hR : EnvRel R) {s s' : State τ} {e e' : Env} {op : SOp τ} {r : Option τ} (h : step s e op = .ok (s', e', r)) :
    R e e' := by
  cases op with
  | addNode n =>
    simp only [step] at h
    obtain ⟨s1, _, h2⟩ := map_ok.1 h
    simp at h2; obtain ⟨_, rfl, _⟩ := h2; exact hR.refl e
  | addNodeCollection n c =>
    simp only [step] at h
    obtain ⟨s1, _, h2⟩ := map_ok.1 h
    simp at h2; obtain ⟨_, rfl, _⟩ := h2; exact hR.refl e
  | schedule =>
    simp only [step] at h
    obtain ⟨⟨s1, e1⟩, h1, h2⟩ := map_ok.1 h
    simp at h2; obtain ⟨_, rfl, _⟩ := h2
    unfold schedule at h1
    split at h1
    · cases h1
    · split at h1
      · exact checkSchedule_rel hR h1
      · split at h1
        · cases h1
        · rename_i first col rest _
          simp only at h1
          have hd := hR.reports e (collectionDiffs first col rest) (by
            intro o ho
            unfold collectionDiffs at ho
            obtain ⟨p, _, rfl⟩ := List.mem_map.1 ho
            rfl)
          split at h1
          · simp only [Except.ok.injEq, Prod.mk.injEq] at h1; obtain ⟨_, rfl⟩ := h1; exact hd
          · split at h1
            · simp only [Except.ok.injEq, Prod.mk.injEq] at h1; obtain ⟨_, rfl⟩ := h1; exact hd
            · exact hR.trans hd (checkSchedule_rel hR h1)
  | markComplete n i slow =>
    simp only [step] at h
    obtain ⟨⟨s1, e1⟩, h1, h2⟩ := map_ok.1 h
    simp at h2; obtain ⟨_, rfl, _⟩ := h2
    unfold markComplete at h1
    obtain ⟨book, _, h1⟩ := bind_ok.1 h1
    obtain ⟨book', _, h1⟩ := bind_ok.1 h1
    exact checkSchedule_rel hR h1
  | markPending t =>
    simp only [step] at h
    obtain ⟨⟨s1, e1⟩, h1, h2⟩ := map_ok.1 h
    simp at h2; obtain ⟨_, rfl, _⟩ := h2
    unfold markPending at h1
    split at h1
    · cases h1
    · obtain ⟨idx, _, h1⟩ := bind_ok.1 h1
      exact checkSchedule_rel hR h1
  | removePending n is =>
    simp only [step] at h
    obtain ⟨⟨s1, e1⟩, h1, h2⟩ := map_ok.1 h
    simp at h2; obtain ⟨_, rfl, _⟩ := h2
    unfold removePending at h1
    split at h1
    · cases h1
    · obtain ⟨book, _, h1⟩ := bind_ok.1 h1
      exact checkSchedule_rel hR h1
  | removeNode n =>
    simp only [step] at h
    unfold removeNode at h
    obtain ⟨p, _, h⟩ := bind_ok.1 h
    obtain ⟨cr, _, h⟩ := bind_ok.1 h
    obtain ⟨r2, h3, h⟩ := bind_ok.1 h
    simp only [Except.ok.injEq, Prod.mk.injEq] at h
    obtain ⟨_, rfl, _⟩ := h
    exact checkSchedule_rel hR (show checkSchedule _ e = .ok (r2.1, r2.2) from h3)

end WorkSteal

namespace LoadScope
variable {κ τ : Type} [DecidableEq κ] [DecidableEq τ]

theorem assignWorkUnit_rel (hR : EnvRel R) {s s' : State κ τ} {e e' : Env} {n : Nat} (h : assignWorkUnit s e n = .ok (s', e')) : R e e' := by
  unfold assignWorkUnit at h
  split at h
  · cases h
  · simp only at h
    obtain ⟨col, _, h⟩ := bind_ok.1 h
    obtain ⟨is, _, h⟩ := bind_ok.1 h
    obtain ⟨e1, he1, h⟩ := bind_ok.1 h
    simp only [Except.ok.injEq, Prod.mk.injEq] at h
    obtain ⟨_, rfl⟩ := h
    exact hR.send he1

theorem topUp_rel (hR : EnvRel R) {n : Nat} (fuel : Nat) : ∀ {s s' : State κ τ} {e e' : Env}, topUp s e n fuel = .ok (s', e') → R e e' := by
  induction fuel with
  | zero =>
    intro s s' e e' h
    simp only [topUp, Except.ok.injEq, Prod.mk.injEq] at h
    obtain ⟨_, rfl⟩ := h; exact hR.refl e
  | succ fuel ih =>
    intro s s' e e' h
    simp only [topUp] at h
    split at h
    · simp only [Except.ok.injEq, Prod.mk.injEq] at h; obtain ⟨_, rfl⟩ := h; exact hR.refl e
    · obtain ⟨w, _, h⟩ := bind_ok.1 h
      split at h
      · obtain ⟨⟨s1, e1⟩, h1, h⟩ := bind_ok.1 h
        exact hR.trans (assignWorkUnit_rel hR h1) (ih h)
      · simp only [Except.ok.injEq, Prod.mk.injEq] at h; obtain ⟨_, rfl⟩ := h; exact hR.refl e

theorem reschedule_rel (hR : EnvRel R) {s s' : State κ τ} {e e' : Env} {n : Nat} (h : reschedule s e n = .ok (s', e')) : R e e' := by
  unfold reschedule at h
  split at h
  · simp only [Except.ok.injEq, Prod.mk.injEq] at h; obtain ⟨_, rfl⟩ := h; exact hR.refl e
  · split at h
    · simp only [Except.ok.injEq, Prod.mk.injEq] at h; obtain ⟨_, rfl⟩ := h; exact hR.refl e
    · split at h
      · simp only [Except.ok.injEq, Prod.mk.injEq] at h; obtain ⟨_, rfl⟩ := h
        exact hR.shutdown e n
      · obtain ⟨w, _, h⟩ := bind_ok.1 h
        split at h
        · simp only [Except.ok.injEq, Prod.mk.injEq] at h; obtain ⟨_, rfl⟩ := h; exact hR.refl e
        · obtain ⟨⟨s1, e1⟩, h1, h⟩ := bind_ok.1 h
          exact hR.trans (assignWorkUnit_rel hR h1) (topUp_rel hR _ h)

theorem rescheduleAll_rel (hR : EnvRel R) (l : List Nat) : ∀ {s s' : State κ τ} {e e' : Env}, rescheduleAll s e l = .ok (s', e') → R e e' := by
  induction l with
  | nil =>
    intro s s' e e' h
    simp only [rescheduleAll, Except.ok.injEq, Prod.mk.injEq] at h
    obtain ⟨_, rfl⟩ := h; exact hR.refl e
  | cons n t ih =>
    intro s s' e e' h
    simp only [rescheduleAll] at h
    obtain ⟨⟨s1, e1⟩, h1, h2⟩ := bind_ok.1 h
    exact hR.trans (reschedule_rel hR h1) (ih h2)

theorem assignAll_rel (hR : EnvRel R) (l : List Nat) : ∀ {s s' : State κ τ} {e e' : Env}, assignAll s e l = .ok (s', e') → R e e' := by
  induction l with
  | nil =>
    intro s s' e e' h
    simp only [assignAll, Except.ok.injEq, Prod.mk.injEq] at h
    obtain ⟨_, rfl⟩ := h; exact hR.refl e
  | cons n t ih =>
    intro s s' e e' h
    simp only [assignAll] at h
    split at h
    · exact ih h
    · obtain ⟨⟨s1, e1⟩, h1, h2⟩ := bind_ok.1 h
      exact hR.trans (assignWorkUnit_rel hR h1) (ih h2)

omit [DecidableEq κ] [DecidableEq τ] in
theorem dropExtra_rel (hR : EnvRel R) (k : Nat) : ∀ {s s' : State κ τ} {e e' : Env}, dropExtra s e k = .ok (s', e') → R e e' := by
  induction k with
  | zero =>
    intro s s' e e' h
    simp only [dropExtra, Except.ok.injEq, Prod.mk.injEq] at h
    obtain ⟨_, rfl⟩ := h; exact hR.refl e
  | succ k ih =>
    intro s s' e e' h
    simp only [dropExtra] at h
    split at h
    · cases h
    · exact hR.trans (hR.shutdown e _) (ih h)

theorem step_envRel (hR : EnvRel R) (split : τ → κ) {s s' : State κ τ} {e e' : Env} {op : SOp τ} {r : Option τ}
    (h : step split s e op = .ok (s', e', r)) : R e e' := by
  cases op with
  | addNode n =>
    simp only [step] at h
    obtain ⟨s1, _, h2⟩ := map_ok.1 h
    simp at h2; obtain ⟨_, rfl, _⟩ := h2; exact hR.refl e
  | addNodeCollection n c =>
    simp only [step] at h
    obtain ⟨s1, _, h2⟩ := map_ok.1 h
    simp at h2; obtain ⟨_, rfl, _⟩ := h2; exact hR.refl e
  | schedule =>
    simp only [step] at h
    obtain ⟨⟨s1, e1⟩, h1, h2⟩ := map_ok.1 h
    simp at h2; obtain ⟨_, rfl, _⟩ := h2
    unfold schedule at h1
    split at h1
    · cases h1
    · split at h1
      · exact rescheduleAll_rel hR _ h1
      · split at h1
        · cases h1
        · rename_i first col rest _
          simp only at h1
          have hd := hR.reports e (collectionDiffs first col rest) (by
            intro o ho
            unfold collectionDiffs at ho
            obtain ⟨p, _, rfl⟩ := List.mem_map.1 ho
            rfl)
          split at h1
          · simp only [Except.ok.injEq, Prod.mk.injEq] at h1; obtain ⟨_, rfl⟩ := h1; exact hd
          · split at h1
            · simp only [Except.ok.injEq, Prod.mk.injEq] at h1; obtain ⟨_, rfl⟩ := h1; exact hd
            · obtain ⟨⟨s3, e3⟩, h3, h1⟩ := bind_ok.1 h1
              obtain ⟨⟨s4, e4⟩, h4, h1⟩ := bind_ok.1 h1
              obtain ⟨⟨s5, e5⟩, h5, h1⟩ := bind_ok.1 h1
              have a := hR.trans (hR.trans (hR.trans hd (dropExtra_rel hR _ h3)) (assignAll_rel hR _ h4)) (rescheduleAll_rel hR _ h5)
              split at h1
              · simp only [Except.ok.injEq, Prod.mk.injEq] at h1; obtain ⟨_, rfl⟩ := h1
                exact hR.trans a (hR.shutdownAll _ _)
              · simp only [Except.ok.injEq, Prod.mk.injEq] at h1; obtain ⟨_, rfl⟩ := h1
                exact a
  | markComplete n i slow =>
    simp only [step] at h
    obtain ⟨⟨s1, e1⟩, h1, h2⟩ := map_ok.1 h
    simp at h2; obtain ⟨_, rfl, _⟩ := h2
    unfold markComplete at h1
    obtain ⟨col, _, h1⟩ := bind_ok.1 h1
    split at h1
    · cases h1
    · obtain ⟨w, _, h1⟩ := bind_ok.1 h1
      obtain ⟨wu, _, h1⟩ := bind_ok.1 h1
      exact reschedule_rel hR h1
  | markPending t => simp [step] at h
  | removePending n is => simp [step] at h
  | removeNode n =>
    simp only [step] at h
    unfold removeNode at h
    obtain ⟨⟨workload, asg⟩, _, h⟩ := bind_ok.1 h
    simp only at h
    split at h
    · simp only [Except.ok.injEq, Prod.mk.injEq] at h; obtain ⟨_, rfl, _⟩ := h; exact hR.refl e
    · split at h
      · cases h
      · obtain ⟨⟨s3, e3⟩, h3, h⟩ := bind_ok.1 h
        simp only [Except.ok.injEq, Prod.mk.injEq] at h
        obtain ⟨_, rfl, _⟩ := h
        exact rescheduleAll_rel hR _ h3

end LoadScope

/-- **the frame principle for all six schedulers** -/
theorem Sched.any_step_envRel (hR : EnvRel R) (specs : AList Nat Nat) {a a' : Sched.Any} {e e' : Env} {op : SOp String} {r : Option String}
    (h : Sched.Any.step specs a e op = .ok (a', e', r)) : R e e' := by
  cases a with
  | nosched => simp [Sched.Any.step] at h
  | load s =>
    simp only [Sched.Any.step] at h
    obtain ⟨x, hx, h2⟩ := map_ok.1 h
    simp only [Prod.mk.injEq] at h2
    obtain ⟨_, rfl, _⟩ := h2
    exact Load.step_envRel hR (show Load.step s e op = .ok (x.1, x.2.1, x.2.2) from hx)
  | ws s =>
    simp only [Sched.Any.step] at h
    obtain ⟨x, hx, h2⟩ := map_ok.1 h
    simp only [Prod.mk.injEq] at h2
    obtain ⟨_, rfl, _⟩ := h2
    exact WorkSteal.step_envRel hR (show WorkSteal.step s e op = .ok (x.1, x.2.1, x.2.2) from hx)
  | scope m s =>
    simp only [Sched.Any.step] at h
    obtain ⟨x, hx, h2⟩ := map_ok.1 h
    simp only [Prod.mk.injEq] at h2
    obtain ⟨_, rfl, _⟩ := h2
    exact LoadScope.step_envRel hR _ (show LoadScope.step (Sched.splitOf m) s e op = .ok (x.1, x.2.1, x.2.2) from hx)
  | each s =>
    simp only [Sched.Any.step] at h
    obtain ⟨x, hx, h2⟩ := map_ok.1 h
    simp only [Prod.mk.injEq] at h2
    obtain ⟨_, rfl, _⟩ := h2
    exact Each.step_envRel hR _ (show Each.step _ s e op = .ok (x.1, x.2.1, x.2.2) from hx)

/-- instance: what a scheduler call can do to the flags and the wire log — `_down` and `broken` untouched, `_shutdown_sent` only
    ever set, the log only appended to -/
def FlagFrame (e e' : Env) : Prop :=
  (∀ n, (e'.flags.get n).down = (e.flags.get n).down ∧ (e'.flags.get n).broken = (e.flags.get n).broken ∧
        ((e.flags.get n).sent = true → (e'.flags.get n).sent = true)) ∧
  ∃ new, e'.outs = e.outs ++ new

theorem flagFrame_envRel : EnvRel FlagFrame where
  refl := fun e => ⟨fun _ => ⟨rfl, rfl, fun h => h⟩, [], by simp⟩
  trans := by
    intro a b c ⟨h1, n1, o1⟩ ⟨h2, n2, o2⟩
    refine ⟨fun n => ⟨(h2 n).1.trans (h1 n).1, (h2 n).2.1.trans (h1 n).2.1, fun hs => (h2 n).2.2 ((h1 n).2.2 hs)⟩, n1 ++ n2, ?_⟩
    rw [o2, o1, List.append_assoc]
  send := by
    intro e e' n o h
    unfold Env.send at h
    split at h
    · simp only [Except.ok.injEq] at h; subst h; exact ⟨fun _ => ⟨rfl, rfl, fun h => h⟩, [], by simp⟩
    · simp only [Except.ok.injEq] at h; subst h; exact ⟨fun _ => ⟨rfl, rfl, fun h => h⟩, [o], rfl⟩
  shutdown := by
    intro e n
    unfold Env.shutdown
    by_cases hd : ((e.flags.get n).down || (e.flags.get n).sent) = true
    · simp only [hd, if_true]; exact ⟨fun _ => ⟨rfl, rfl, fun h => h⟩, [], by simp⟩
    · simp only [hd, Bool.false_eq_true, if_false]
      refine ⟨?_, ?_⟩
      · intro m
        simp only [flags_get_set]
        by_cases hm : m = n
        · subst hm; simp
        · simp [hm]
      · split
        · exact ⟨[], by simp⟩
        · exact ⟨[SOut.shutdown n], rfl⟩
  reports := fun e ds _ => ⟨fun _ => ⟨rfl, rfl, fun h => h⟩, ds, rfl⟩

/-- every call of each of the six schedulers leaves `_down` and `broken` alone, only ever sets `_shutdown_sent`, and only appends
    to the wire log -/
theorem Sched.any_step_flagFrame (specs : AList Nat Nat) {a a' : Sched.Any} {e e' : Env} {op : SOp String} {r : Option String}
    (h : Sched.Any.step specs a e op = .ok (a', e', r)) : FlagFrame e e' :=
  Sched.any_step_envRel flagFrame_envRel specs h

end Xdist
