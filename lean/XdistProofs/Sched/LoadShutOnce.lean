import XdistProofs.Sched.LoadPot
/-!
  At most one shutdown signal per worker ever goes on the wire, and a signal on the wire means the flag is set (`ShutOnceE`):
  kept by `WorkerController.shutdown()`, by every send of a run command, and hence by every call of `LoadScheduling`.
-/
namespace Xdist
open Xdist

/-- per worker: at most one shutdown signal on the wire so far, and if there is one the flag `_shutdown_sent` is set -/
def ShutOnceE (e : Env) : Prop :=
  ∀ n, e.outs.count (SOut.shutdown n) ≤ 1 ∧ (SOut.shutdown n ∈ e.outs → (e.flags.get n).sent = true)

theorem shutOnceE_init : ShutOnceE {} := by
  intro n; simp

/-- appending commands that are not shutdown signals -/
theorem shutOnceE_append {e : Env} {new : List SOut} (h : ShutOnceE e) (hn : ∀ o ∈ new, ∀ n, o ≠ SOut.shutdown n) :
    ShutOnceE { e with outs := e.outs ++ new } := by
  intro n
  obtain ⟨h1, h2⟩ := h n
  have hc : new.count (SOut.shutdown n) = 0 := List.count_eq_zero.2 (fun hm => hn _ hm n rfl)
  refine ⟨by simp only [List.count_append, hc]; omega, ?_⟩
  intro hm
  simp only [List.mem_append] at hm
  rcases hm with hm | hm
  · exact h2 hm
  · exact absurd rfl (hn _ hm n)

theorem shutOnceE_shutdown {e : Env} (h : ShutOnceE e) (k : Nat) : ShutOnceE (e.shutdown k) := by
  unfold Env.shutdown
  by_cases hd : ((e.flags.get k).down || (e.flags.get k).sent) = true
  · simp only [hd, if_true]; exact h
  · simp only [hd, Bool.false_eq_true, if_false]
    have hsent : (e.flags.get k).sent = false := by
      cases hs : (e.flags.get k).sent with
      | false => rfl
      | true => simp [hs] at hd
    have hnot : SOut.shutdown k ∉ e.outs := fun hm => by rw [(h k).2 hm] at hsent; cases hsent
    intro n
    obtain ⟨h1, h2⟩ := h n
    by_cases hb : (e.flags.get k).broken = true
    · simp only [hb, if_true]
      refine ⟨h1, ?_⟩
      intro hm
      rw [Contract.flags_get_set]
      by_cases hnk : n = k
      · simp [hnk]
      · simp only [hnk, if_false]; exact h2 hm
    · simp only [hb, Bool.false_eq_true, if_false]
      by_cases hnk : n = k
      · subst hnk
        refine ⟨?_, ?_⟩
        · have : e.outs.count (SOut.shutdown n) = 0 := List.count_eq_zero.2 hnot
          simp [List.count_append, this]
        · intro _; rw [Contract.flags_get_set]; simp
      · refine ⟨?_, ?_⟩
        · have : [SOut.shutdown k].count (SOut.shutdown n) = 0 := by
            apply List.count_eq_zero.2
            intro hm
            simp at hm
            exact hnk hm
          simp only [List.count_append, this]; omega
        · intro hm
          rw [Contract.flags_get_set]
          simp only [hnk, if_false]
          simp only [List.mem_append, List.mem_singleton, SOut.shutdown.injEq, hnk, or_false] at hm
          exact h2 hm

theorem shutOnceE_shutdownAll (ns : List Nat) : ∀ {e : Env}, ShutOnceE e → ShutOnceE (e.shutdownAll ns) := by
  induction ns with
  | nil => intro e h; exact h
  | cons n t ih => intro e h; exact ih (shutOnceE_shutdown h n)

namespace Load

variable {τ : Type} [DecidableEq τ]

omit [DecidableEq τ] in
theorem sendTests_shutOnce {s s' : State τ} {e e' : Env} {n : Nat} {num : Int} (h : sendTests s e n num = .ok (s', e'))
    (hs : ShutOnceE e) : ShutOnceE e' := by
  unfold sendTests at h
  simp only at h
  split at h
  · simp only [Except.ok.injEq, Prod.mk.injEq] at h; obtain ⟨_, rfl⟩ := h; exact hs
  · obtain ⟨book, hb, h⟩ := bind_ok.1 h
    obtain ⟨e1, he1, h⟩ := bind_ok.1 h
    simp only [Except.ok.injEq, Prod.mk.injEq] at h
    obtain ⟨_, rfl⟩ := h
    unfold Env.sendRun Env.send at he1
    split at he1
    · simp only [Except.ok.injEq] at he1; subst he1; exact hs
    · simp only [Except.ok.injEq] at he1; subst he1
      exact shutOnceE_append hs (by intro o ho m; simp at ho; subst ho; simp)

theorem checkSchedule_shutOnce {s s' : State τ} {e e' : Env} {n : Nat} {slow : Bool}
    (h : checkSchedule s e n slow = .ok (s', e')) (hs : ShutOnceE e) : ShutOnceE e' := by
  unfold checkSchedule at h
  by_cases hsd : e.flags.shuttingDown n = true
  · simp [hsd] at h; obtain ⟨_, rfl⟩ := h; exact hs
  · simp only [hsd] at h
    by_cases hpe : s.pending.isEmpty = true
    · simp [hpe] at h; obtain ⟨_, rfl⟩ := h
      exact shutOnceE_shutdown hs n
    · simp only [hpe] at h
      by_cases hz : s.node2pending.length = 0
      · simp [hz] at h
      · simp only [hz] at h
        cases hb : s.node2pending.get n with
        | error err => simp [hb, bind, Except.bind] at h
        | ok book =>
          simp only [hb, bind, Except.bind] at h
          by_cases hlt : book.length < max 2 (s.pending.length / s.node2pending.length / 4)
          · simp only [hlt] at h
            by_cases hsl : (slow && decide (book.length ≥ 2)) = true
            · simp [hsl] at h; obtain ⟨_, rfl⟩ := h; exact hs
            · simp only [hsl] at h
              cases hm : s.maxschedchunk with
              | none => simp [hm] at h
              | some msc =>
                simp only [hm] at h
                exact sendTests_shutOnce h hs
          · simp [hlt] at h; obtain ⟨_, rfl⟩ := h; exact hs

theorem checkAll_shutOnce {ns : List Nat} : ∀ {s s' : State τ} {e e' : Env}, checkAll s e ns = .ok (s', e') →
    ShutOnceE e → ShutOnceE e' := by
  induction ns with
  | nil =>
    intro s s' e e' h hs
    simp only [checkAll, Except.ok.injEq, Prod.mk.injEq] at h
    obtain ⟨_, rfl⟩ := h; exact hs
  | cons n t ih =>
    intro s s' e e' h hs
    simp only [checkAll] at h
    obtain ⟨⟨s1, e1⟩, h1, h2⟩ := bind_ok.1 h
    exact ih h2 (checkSchedule_shutOnce h1 hs)

theorem sendEach_shutOnce {num : Int} {ns : List Nat} : ∀ {s s' : State τ} {e e' : Env}, sendEach s e num ns = .ok (s', e') →
    ShutOnceE e → ShutOnceE e' := by
  induction ns with
  | nil =>
    intro s s' e e' h hs
    simp only [sendEach, Except.ok.injEq, Prod.mk.injEq] at h
    obtain ⟨_, rfl⟩ := h; exact hs
  | cons n t ih =>
    intro s s' e e' h hs
    simp only [sendEach] at h
    obtain ⟨⟨s1, e1⟩, h1, h2⟩ := bind_ok.1 h
    exact ih h2 (sendTests_shutOnce h1 hs)

theorem roundRobin_shutOnce {ns : List Nat} {k : Nat} : ∀ {i : Nat} {s s' : State τ} {e e' : Env},
    roundRobin ns s e k i = .ok (s', e') → ShutOnceE e → ShutOnceE e' := by
  induction k with
  | zero =>
    intro i s s' e e' h hs
    simp only [roundRobin, Except.ok.injEq, Prod.mk.injEq] at h
    obtain ⟨_, rfl⟩ := h; exact hs
  | succ k ih =>
    intro i s s' e e' h hs
    simp only [roundRobin] at h
    split at h
    · cases h
    · obtain ⟨⟨s1, e1⟩, h1, h2⟩ := bind_ok.1 h
      exact ih h2 (sendTests_shutOnce h1 hs)

theorem initialSend_shutOnce {s s' : State τ} {e e' : Env} {n : Nat} {msc : Int} (h : initialSend s e n msc = .ok (s', e'))
    (hs : ShutOnceE e) : ShutOnceE e' := by
  unfold initialSend at h
  obtain ⟨⟨s3, e3⟩, hsend, h⟩ := bind_ok.1 h
  have h3 : ShutOnceE e3 := by
    unfold initialDistribute at hsend
    dsimp only at hsend
    split at hsend
    · exact roundRobin_shutOnce hsend hs
    · split at hsend
      · cases hsend
      · exact sendEach_shutOnce hsend hs
  split at h
  · simp only [Except.ok.injEq, Prod.mk.injEq] at h; obtain ⟨_, rfl⟩ := h
    exact shutOnceE_shutdownAll _ h3
  · simp only [Except.ok.injEq, Prod.mk.injEq] at h; obtain ⟨_, rfl⟩ := h
    exact h3

theorem diffs_not_shutdown (first : Nat) (col : List τ) (rest : AList Nat (List τ)) :
    ∀ o ∈ collectionDiffs first col rest, ∀ n, o ≠ SOut.shutdown n := by
  intro o ho n
  unfold collectionDiffs at ho
  obtain ⟨p, _, rfl⟩ := List.mem_map.1 ho
  simp

/-- **every call of `LoadScheduling` keeps the shutdown discipline of the wire** -/
theorem step_shutOnce {s s' : State τ} {e e' : Env} {op : SOp τ} {r : Option τ} (h : step s e op = .ok (s', e', r))
    (hs : ShutOnceE e) : ShutOnceE e' := by
  cases op with
  | addNode n =>
    simp only [step] at h
    obtain ⟨s1, h1, h2⟩ := map_ok.1 h
    simp at h2; obtain ⟨_, rfl, _⟩ := h2; exact hs
  | addNodeCollection n c =>
    simp only [step] at h
    obtain ⟨s1, h1, h2⟩ := map_ok.1 h
    simp at h2; obtain ⟨_, rfl, _⟩ := h2; exact hs
  | schedule =>
    simp only [step] at h
    obtain ⟨⟨s1, e1⟩, h1, h2⟩ := map_ok.1 h
    simp at h2; obtain ⟨_, rfl, _⟩ := h2
    unfold schedule at h1
    split at h1
    · cases h1
    · cases hcn : s.collection with
      | some col => simp only [hcn] at h1; exact checkAll_shutOnce h1 hs
      | none =>
        simp only [hcn] at h1
        split at h1
        · cases h1
        · rename_i first col rest hreg
          unfold scheduleFirst at h1
          simp only at h1
          have hd := shutOnceE_append hs (diffs_not_shutdown first col rest)
          split at h1
          · simp only [Except.ok.injEq, Prod.mk.injEq] at h1; obtain ⟨_, rfl⟩ := h1; exact hd
          · split at h1
            · simp only [Except.ok.injEq, Prod.mk.injEq] at h1; obtain ⟨_, rfl⟩ := h1; exact hd
            · exact initialSend_shutOnce h1 hd
  | markComplete n i slow =>
    simp only [step] at h
    obtain ⟨⟨s1, e1⟩, h1, h2⟩ := map_ok.1 h
    simp at h2; obtain ⟨_, rfl, _⟩ := h2
    unfold markComplete at h1
    obtain ⟨book, _, h1⟩ := bind_ok.1 h1
    obtain ⟨book', _, h1⟩ := bind_ok.1 h1
    exact checkSchedule_shutOnce h1 hs
  | markPending t =>
    simp only [step] at h
    obtain ⟨⟨s1, e1⟩, h1, h2⟩ := map_ok.1 h
    simp at h2; obtain ⟨_, rfl, _⟩ := h2
    unfold markPending at h1
    split at h1
    · cases h1
    · obtain ⟨idx, _, h1⟩ := bind_ok.1 h1
      exact checkAll_shutOnce h1 hs
  | removePending n is => simp [step] at h
  | removeNode n =>
    simp only [step] at h
    unfold removeNode at h
    obtain ⟨⟨book, n2p⟩, _, h⟩ := bind_ok.1 h
    simp only at h
    split at h
    · simp only [Except.ok.injEq, Prod.mk.injEq] at h; obtain ⟨_, rfl, _⟩ := h; exact hs
    · split at h
      · cases h
      · split at h
        · cases h
        · obtain ⟨⟨s3, e3⟩, h3, h⟩ := bind_ok.1 h
          simp only [Except.ok.injEq, Prod.mk.injEq] at h
          obtain ⟨_, rfl, _⟩ := h
          exact checkAll_shutOnce h3 hs

end Load
end Xdist
