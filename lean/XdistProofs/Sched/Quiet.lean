import XdistModel.Sched.Iface
import XdistProofs.Lemmas.AList
import XdistProofs.Lemmas.Except
/-!
  "Quiet when everybody is shutting down": once every registered node has been told to shut down (or is down), the
  scheduler calls `DSession` still makes — completions, re-queues, steal answers, removals — put **nothing** on the wire
  and register no new node.  Proved for each of the scheduler models and for the dispatching `Sched.iface`.
-/
namespace Xdist

/-- the scheduler calls `DSession` issues while a shutdown is in force -/
def QuietOp {τ : Type} : SOp τ → Prop
  | .markComplete _ _ _ => True
  | .markPending _ => True
  | .removePending _ _ => True
  | .removeNode _ => True
  | _ => False

theorem AList.keys_set_subset {κ ν : Type} [DecidableEq κ] (d : AList κ ν) (x : κ) (v : ν) (hx : x ∈ AList.keys d) :
    ∀ k ∈ AList.keys (AList.set d x v), k ∈ AList.keys d := by
  have h : (AList.lookup d x).isSome := (AList.lookup_isSome_iff_mem_keys d x).2 hx
  rw [AList.keys_set_of_mem d x v h]
  exact fun k hk => hk

theorem AList.mem_keys_of_get {κ ν : Type} [DecidableEq κ] {d : AList κ ν} {x : κ} {v : ν} (h : AList.get d x = .ok v) :
    x ∈ AList.keys d := by
  rw [AList.get_eq_ok] at h
  exact (AList.lookup_isSome_iff_mem_keys d x).1 (by rw [h]; rfl)

namespace Load
variable {τ : Type} [DecidableEq τ]

theorem checkSchedule_quiet (s : State τ) (e : Env) (n : Nat) (slow : Bool) (h : e.flags.shuttingDown n = true) :
    checkSchedule s e n slow = .ok (s, e) := by
  unfold checkSchedule; simp [h]

theorem checkAll_quiet (s : State τ) (e : Env) (ns : List Nat) (h : ∀ n ∈ ns, e.flags.shuttingDown n = true) :
    checkAll s e ns = .ok (s, e) := by
  induction ns with
  | nil => rfl
  | cons n t ih =>
    simp only [checkAll, checkSchedule_quiet s e n false (h n (by simp))]
    exact ih (fun m hm => h m (List.mem_cons_of_mem _ hm))

theorem step_quiet {s s' : State τ} {e e' : Env} {op : SOp τ} {r : Option τ} (hq : QuietOp op)
    (hsd : ∀ n ∈ nodes s, e.flags.shuttingDown n = true) (h : step s e op = .ok (s', e', r)) :
    e' = e ∧ ∀ n ∈ nodes s', n ∈ nodes s := by
  cases op with
  | addNode n => exact absurd hq (by simp [QuietOp])
  | addNodeCollection n c => exact absurd hq (by simp [QuietOp])
  | schedule => exact absurd hq (by simp [QuietOp])
  | removePending n is => simp [step] at h
  | markComplete n i slow =>
    simp only [step] at h
    obtain ⟨a, ha, hb⟩ := map_ok.1 h
    simp only [Prod.mk.injEq] at hb
    obtain ⟨rfl, rfl, _⟩ := hb
    unfold markComplete at ha
    obtain ⟨book, hbk, ha⟩ := bind_ok.1 ha
    obtain ⟨book', _, ha⟩ := bind_ok.1 ha
    have hn : n ∈ nodes s := AList.mem_keys_of_get hbk
    rw [checkSchedule_quiet _ e n slow (hsd n hn)] at ha
    simp only [Except.ok.injEq] at ha
    subst ha
    exact ⟨rfl, AList.keys_set_subset _ _ _ hn⟩
  | markPending t =>
    simp only [step] at h
    obtain ⟨a, ha, hb⟩ := map_ok.1 h
    simp only [Prod.mk.injEq] at hb
    obtain ⟨rfl, rfl, _⟩ := hb
    unfold markPending at ha
    split at ha
    · simp at ha
    · obtain ⟨idx, _, ha⟩ := bind_ok.1 ha
      dsimp only at ha
      rw [checkAll_quiet _ e s.node2pending.keys (fun m hm => hsd m hm)] at ha
      simp only [Except.ok.injEq] at ha
      subst ha
      exact ⟨rfl, fun m hm => hm⟩
  | removeNode n =>
    simp only [step] at h
    unfold removeNode at h
    obtain ⟨p, hp, h⟩ := bind_ok.1 h
    obtain ⟨book, n2p⟩ := p
    obtain ⟨_, hn2p⟩ := AList.pop_eq_ok.1 hp
    have hsub : ∀ m ∈ AList.keys n2p, m ∈ nodes s := by
      intro m hm; rw [hn2p] at hm; exact AList.mem_keys_of_mem_keys_erase _ _ _ hm
    simp only at h
    split at h
    · simp only [Except.ok.injEq, Prod.mk.injEq] at h
      obtain ⟨rfl, rfl, _⟩ := h
      exact ⟨rfl, hsub⟩
    · split at h
      · simp at h
      · split at h
        · simp at h
        · obtain ⟨q, hq2, h⟩ := bind_ok.1 h
          rw [checkAll_quiet _ e n2p.keys (fun m hm => hsd m (hsub m hm))] at hq2
          simp only [Except.ok.injEq] at hq2
          subst hq2
          simp only [Except.ok.injEq, Prod.mk.injEq] at h
          obtain ⟨rfl, rfl, _⟩ := h
          exact ⟨rfl, hsub⟩

end Load

namespace WorkSteal
variable {τ : Type} [DecidableEq τ]

theorem nodesUp_nil (s : State τ) (e : Env) (h : ∀ n ∈ nodes s, e.flags.shuttingDown n = true) : nodesUp s e = [] := by
  unfold nodesUp
  rw [List.filter_eq_nil_iff]
  intro p hp
  have : p.1 ∈ nodes s := List.mem_map.2 ⟨p, hp, rfl⟩
  simp [h p.1 this]

theorem checkSchedule_quiet (s : State τ) (e : Env) (h : ∀ n ∈ nodes s, e.flags.shuttingDown n = true) :
    checkSchedule s e = .ok (s, e) := by
  unfold checkSchedule
  split
  · rfl
  · simp [nodesUp_nil s e h, idleOf]

theorem step_quiet {s s' : State τ} {e e' : Env} {op : SOp τ} {r : Option τ} (hq : QuietOp op)
    (hsd : ∀ n ∈ nodes s, e.flags.shuttingDown n = true) (h : step s e op = .ok (s', e', r)) :
    e' = e ∧ ∀ n ∈ nodes s', n ∈ nodes s := by
  cases op with
  | addNode n => exact absurd hq (by simp [QuietOp])
  | addNodeCollection n c => exact absurd hq (by simp [QuietOp])
  | schedule => exact absurd hq (by simp [QuietOp])
  | markComplete n i slow =>
    simp only [step] at h
    obtain ⟨a, ha, hb⟩ := map_ok.1 h
    simp only [Prod.mk.injEq] at hb
    obtain ⟨rfl, rfl, _⟩ := hb
    unfold markComplete at ha
    obtain ⟨book, hbk, ha⟩ := bind_ok.1 ha
    obtain ⟨book', _, ha⟩ := bind_ok.1 ha
    have hn : n ∈ nodes s := AList.mem_keys_of_get hbk
    have hk := AList.keys_set_subset s.node2pending n book' hn
    have hq3 := checkSchedule_quiet ({ s with node2pending := s.node2pending.set n book' } : State τ) e
      (fun m hm => hsd m (hk m hm))
    rw [hq3] at ha
    simp only [Except.ok.injEq] at ha
    subst ha
    exact ⟨rfl, hk⟩
  | markPending t =>
    simp only [step] at h
    obtain ⟨a, ha, hb⟩ := map_ok.1 h
    simp only [Prod.mk.injEq] at hb
    obtain ⟨rfl, rfl, _⟩ := hb
    unfold markPending at ha
    split at ha
    · simp at ha
    · obtain ⟨idx, _, ha⟩ := bind_ok.1 ha
      rename_i col _
      have hq3 := checkSchedule_quiet ({ s with pending := idx :: s.pending } : State τ) e (fun m hm => hsd m hm)
      rw [hq3] at ha
      simp only [Except.ok.injEq] at ha
      subst ha
      exact ⟨rfl, fun m hm => hm⟩
  | removePending n is =>
    simp only [step] at h
    obtain ⟨a, ha, hb⟩ := map_ok.1 h
    simp only [Prod.mk.injEq] at hb
    obtain ⟨rfl, rfl, _⟩ := hb
    unfold removePending at ha
    split at ha
    · simp at ha
    · obtain ⟨book, hbk, ha⟩ := bind_ok.1 ha
      have hn : n ∈ nodes s := AList.mem_keys_of_get hbk
      have hk := AList.keys_set_subset s.node2pending n (book.filter (fun i => !is.contains i)) hn
      have hq3 := checkSchedule_quiet
        ({ s with stealReq := none
                  node2pending := s.node2pending.set n (book.filter (fun i => !is.contains i))
                  pending := s.pending ++ is } : State τ) e (fun m hm => hsd m (hk m hm))
      rw [hq3] at ha
      simp only [Except.ok.injEq] at ha
      subst ha
      exact ⟨rfl, hk⟩
  | removeNode n =>
    simp only [step] at h
    unfold removeNode at h
    obtain ⟨p, hp, h⟩ := bind_ok.1 h
    obtain ⟨book, n2p⟩ := p
    obtain ⟨_, hn2p⟩ := AList.pop_eq_ok.1 hp
    have hsub : ∀ m ∈ AList.keys n2p, m ∈ nodes s := by
      intro m hm; rw [hn2p] at hm; exact AList.mem_keys_of_mem_keys_erase _ _ _ hm
    obtain ⟨cr, _, h⟩ := bind_ok.1 h
    obtain ⟨q, hq2, h⟩ := bind_ok.1 h
    have hq3 := checkSchedule_quiet
      ({ s with node2pending := n2p
                pending := s.pending ++ cr.2
                stealReq := if s.stealReq = some n then none else s.stealReq } : State τ) e (fun m hm => hsd m (hsub m hm))
    rw [hq3] at hq2
    simp only [Except.ok.injEq] at hq2
    subst hq2
    simp only [Except.ok.injEq, Prod.mk.injEq] at h
    obtain ⟨rfl, rfl, _⟩ := h
    exact ⟨rfl, hsub⟩

end WorkSteal

namespace LoadScope
variable {κ τ : Type} [DecidableEq κ] [DecidableEq τ]

theorem reschedule_quiet (s : State κ τ) (e : Env) (n : Nat) (h : e.flags.shuttingDown n = true) :
    reschedule s e n = .ok (s, e) := by
  unfold reschedule; simp [h]

theorem rescheduleAll_quiet (s : State κ τ) (e : Env) (ns : List Nat) (h : ∀ n ∈ ns, e.flags.shuttingDown n = true) :
    rescheduleAll s e ns = .ok (s, e) := by
  induction ns with
  | nil => rfl
  | cons n t ih =>
    simp only [rescheduleAll, reschedule_quiet s e n (h n (by simp))]
    exact ih (fun m hm => h m (List.mem_cons_of_mem _ hm))

theorem step_quiet (split : τ → κ) {s s' : State κ τ} {e e' : Env} {op : SOp τ} {r : Option τ} (hq : QuietOp op)
    (hsd : ∀ n ∈ nodes s, e.flags.shuttingDown n = true) (h : step split s e op = .ok (s', e', r)) :
    e' = e ∧ ∀ n ∈ nodes s', n ∈ nodes s := by
  cases op with
  | addNode n => exact absurd hq (by simp [QuietOp])
  | addNodeCollection n c => exact absurd hq (by simp [QuietOp])
  | schedule => exact absurd hq (by simp [QuietOp])
  | markPending t => simp [step] at h
  | removePending n is => simp [step] at h
  | markComplete n i slow =>
    simp only [step] at h
    obtain ⟨a, ha, hb⟩ := map_ok.1 h
    simp only [Prod.mk.injEq] at hb
    obtain ⟨rfl, rfl, _⟩ := hb
    unfold markComplete at ha
    obtain ⟨col, _, ha⟩ := bind_ok.1 ha
    split at ha
    · simp at ha
    rename_i t _
    obtain ⟨w, hw, ha⟩ := bind_ok.1 ha
    obtain ⟨wu, _, ha⟩ := bind_ok.1 ha
    have hn : n ∈ nodes s := AList.mem_keys_of_get hw
    rw [reschedule_quiet _ e n (hsd n hn)] at ha
    simp only [Except.ok.injEq] at ha
    subst ha
    exact ⟨rfl, AList.keys_set_subset _ _ _ hn⟩
  | removeNode n =>
    simp only [step] at h
    unfold removeNode at h
    obtain ⟨p, hp, h⟩ := bind_ok.1 h
    obtain ⟨workload, asg⟩ := p
    obtain ⟨_, hasg⟩ := AList.pop_eq_ok.1 hp
    have hsub : ∀ m ∈ AList.keys asg, m ∈ nodes s := by
      intro m hm; rw [hasg] at hm; exact AList.mem_keys_of_mem_keys_erase _ _ _ hm
    simp only at h
    split at h
    · simp only [Except.ok.injEq, Prod.mk.injEq] at h
      obtain ⟨rfl, rfl, _⟩ := h
      exact ⟨rfl, hsub⟩
    · split at h
      · simp at h
      · obtain ⟨q, hq2, h⟩ := bind_ok.1 h
        rw [rescheduleAll_quiet _ e _ (fun m (hm : m ∈ AList.keys asg) => hsd m (hsub m hm))] at hq2
        simp only [Except.ok.injEq] at hq2
        subst hq2
        simp only [Except.ok.injEq, Prod.mk.injEq] at h
        obtain ⟨rfl, rfl, _⟩ := h
        exact ⟨rfl, hsub⟩

end LoadScope

namespace Each
variable {τ : Type} [DecidableEq τ]

theorem step_quiet (spec : Nat → Nat) {s s' : State τ} {e e' : Env} {op : SOp τ} {r : Option τ} (hq : QuietOp op)
    (h : step spec s e op = .ok (s', e', r)) : e' = e ∧ ∀ n ∈ nodes s', n ∈ nodes s := by
  cases op with
  | addNode n => exact absurd hq (by simp [QuietOp])
  | addNodeCollection n c => exact absurd hq (by simp [QuietOp])
  | schedule => exact absurd hq (by simp [QuietOp])
  | markPending t => simp [step] at h
  | removePending n is => simp [step] at h
  | markComplete n i slow =>
    simp only [step] at h
    obtain ⟨a, ha, hb⟩ := map_ok.1 h
    simp only [Prod.mk.injEq] at hb
    obtain ⟨rfl, rfl, _⟩ := hb
    unfold markComplete at ha
    obtain ⟨book, hbk, ha⟩ := bind_ok.1 ha
    obtain ⟨book', _, ha⟩ := bind_ok.1 ha
    simp only [Except.ok.injEq] at ha
    subst ha
    exact ⟨rfl, AList.keys_set_subset _ _ _ (AList.mem_keys_of_get hbk)⟩
  | removeNode n =>
    simp only [step] at h
    obtain ⟨a, ha, hb⟩ := map_ok.1 h
    simp only [Prod.mk.injEq] at hb
    obtain ⟨rfl, rfl, _⟩ := hb
    unfold removeNode at ha
    obtain ⟨p, hp, ha⟩ := bind_ok.1 ha
    obtain ⟨book, n2p⟩ := p
    obtain ⟨_, hn2p⟩ := AList.pop_eq_ok.1 hp
    have hsub : ∀ m ∈ AList.keys n2p, m ∈ nodes s := by
      intro m hm; rw [hn2p] at hm; exact AList.mem_keys_of_mem_keys_erase _ _ _ hm
    simp only at ha
    split at ha
    · simp only [Except.ok.injEq] at ha; subst ha; exact ⟨rfl, hsub⟩
    · obtain ⟨col, _, ha⟩ := bind_ok.1 ha
      split at ha
      · simp at ha
      · simp only [Except.ok.injEq] at ha
        subst ha
        refine ⟨rfl, ?_⟩
        split <;> exact hsub

end Each

end Xdist
