import XdistProofs.Sched.LoadOk
import XdistProofs.Sched.LoadAcc
/-!
  What one scheduler call puts on the wire, relative to the shutdown signals: no test is sent to a node that was already told
  to shut down, none behind a shutdown signal of the same call, and a shutdown signal on the wire means the flag is set (`Wd`).
  The first `schedule()` sends without looking at the flags: there the nodes must not have been told to shut down before.
-/
namespace Xdist.Load
open Xdist Xdist.Contract

variable {τ : Type} [DecidableEq τ]

structure Wd (e : Env) (new : List SOut) (e' : Env) : Prop where
  outs : e'.outs = e.outs ++ new
  p1 : ∀ n, (e.flags.get n).sent = true → sentTo new n = []
  p2 : ∀ n pre post, new = pre ++ SOut.shutdown n :: post → sentTo post n = []
  p3 : ∀ n, SOut.shutdown n ∈ new → (e'.flags.get n).sent = true
  mono : ∀ n, (e.flags.get n).sent = true → (e'.flags.get n).sent = true

theorem nil_ne_append_cons {α : Type} {pre post : List α} {x : α} (h : ([] : List α) = pre ++ x :: post) : False := by
  cases pre <;> cases h

theorem Wd.refl (e : Env) : Wd e [] e :=
  { outs := by simp
    p1 := fun _ _ => rfl
    p2 := fun n pre post h => (nil_ne_append_cons h).elim
    p3 := fun n h => (by cases h)
    mono := fun _ h => h }

theorem append_eq_append_cons {α : Type} {a b pre post : List α} {x : α} (h : a ++ b = pre ++ x :: post) :
    (∃ m, a = pre ++ x :: m ∧ post = m ++ b) ∨ (∃ m, pre = a ++ m ∧ b = m ++ x :: post) := by
  induction a generalizing pre with
  | nil => exact Or.inr ⟨pre, rfl, h⟩
  | cons y t ih =>
    cases pre with
    | nil =>
      simp only [List.cons_append, List.nil_append, List.cons.injEq] at h
      exact Or.inl ⟨t, by rw [h.1]; rfl, h.2.symm⟩
    | cons z pre' =>
      simp only [List.cons_append, List.cons.injEq] at h
      rcases ih h.2 with ⟨m, h1, h2⟩ | ⟨m, h1, h2⟩
      · exact Or.inl ⟨m, by rw [h.1, h1]; rfl, h2⟩
      · exact Or.inr ⟨m, by rw [h.1, h1]; rfl, h2⟩

theorem Wd.trans {e1 e2 e3 : Env} {n1 n2 : List SOut} (x : Wd e1 n1 e2) (y : Wd e2 n2 e3) : Wd e1 (n1 ++ n2) e3 := by
  refine { outs := by rw [y.outs, x.outs, List.append_assoc], p1 := ?_, p2 := ?_, p3 := ?_, mono := fun n h => y.mono n (x.mono n h) }
  · intro n h
    rw [sentTo_append, x.p1 n h, y.p1 n (x.mono n h)]; rfl
  · intro n pre post h
    rcases append_eq_append_cons h with ⟨m, h1, h2⟩ | ⟨m, h1, h2⟩
    · rw [h2, sentTo_append, x.p2 n pre m h1, y.p1 n (x.p3 n (by rw [h1]; simp))]; rfl
    · exact y.p2 n m post h2
  · intro n h
    rcases List.mem_append.1 h with h | h
    · exact y.mono n (x.p3 n h)
    · exact y.p3 n h

theorem shutdown_wd (e : Env) (n : Nat) : ∃ new, Wd e new (e.shutdown n) := by
  unfold Env.shutdown
  by_cases hd : ((e.flags.get n).down || (e.flags.get n).sent) = true
  · simp only [hd, if_true]; exact ⟨[], Wd.refl _⟩
  · simp only [hd, Bool.false_eq_true, if_false]
    by_cases hb : (e.flags.get n).broken = true
    · simp only [hb, if_true]
      refine ⟨[], { outs := by simp, p1 := fun _ _ => rfl, p2 := fun m pre post h => (nil_ne_append_cons h).elim,
                    p3 := fun m h => (by cases h), mono := ?_ }⟩
      intro m h; simp only [Contract.flags_get_set]; by_cases hm : m = n <;> simp [hm, h]
    · simp only [hb, Bool.false_eq_true, if_false]
      refine ⟨[SOut.shutdown n], { outs := rfl, p1 := fun _ _ => (by simp [sentTo]), p2 := ?_, p3 := ?_, mono := ?_ }⟩
      · intro m pre post h
        cases pre with
        | nil => simp only [List.nil_append, List.cons.injEq] at h; rw [← h.2]; rfl
        | cons a t =>
          simp only [List.cons_append, List.cons.injEq] at h
          exact (nil_ne_append_cons h.2).elim
      · intro m h
        simp only [List.mem_singleton, SOut.shutdown.injEq] at h
        subst h
        simp [Contract.flags_get_set]
      · intro m h; simp only [Contract.flags_get_set]; by_cases hm : m = n <;> simp [hm, h]

theorem shutdownAll_wd (e : Env) (ns : List Nat) : ∃ new, Wd e new (e.shutdownAll ns) := by
  induction ns generalizing e with
  | nil => exact ⟨[], Wd.refl _⟩
  | cons n t ih =>
    obtain ⟨n1, a1⟩ := shutdown_wd e n
    obtain ⟨n2, a2⟩ := ih (e.shutdown n)
    exact ⟨n1 ++ n2, a1.trans a2⟩

/-- `_send_tests` to a node that has not been told to shut down -/
theorem sendTests_wd {s s' : State τ} {e e' : Env} {n : Nat} {num : Int} (hs : (e.flags.get n).sent = false)
    (h : sendTests s e n num = .ok (s', e')) : ∃ new, Wd e new e' ∧ e'.flags = e.flags := by
  unfold sendTests at h
  simp only at h
  split at h
  · simp only [Except.ok.injEq, Prod.mk.injEq] at h; obtain ⟨_, rfl⟩ := h; exact ⟨[], Wd.refl _, rfl⟩
  · obtain ⟨book, hb, h⟩ := bind_ok.1 h
    obtain ⟨e1, h1, h⟩ := bind_ok.1 h
    simp only [Except.ok.injEq, Prod.mk.injEq] at h
    obtain ⟨_, rfl⟩ := h
    unfold Env.sendRun Env.send at h1
    split at h1
    · simp only [Except.ok.injEq] at h1; subst h1; exact ⟨[], Wd.refl _, rfl⟩
    · simp only [Except.ok.injEq] at h1; subst h1
      refine ⟨[SOut.run n _], { outs := rfl, p1 := ?_, p2 := ?_, p3 := ?_, mono := fun _ h => h }, rfl⟩
      · intro m hm
        have hmn : n ≠ m := by intro hh; subst hh; rw [hs] at hm; cases hm
        simp [sentTo, hmn]
      · intro m pre post hh
        cases pre with
        | nil => simp at hh
        | cons a t =>
          simp only [List.cons_append, List.cons.injEq] at hh
          exact (nil_ne_append_cons hh.2).elim
      · intro m hm; simp at hm

theorem checkSchedule_wd {s s' : State τ} {e e' : Env} {n : Nat} {slow : Bool} (h : checkSchedule s e n slow = .ok (s', e')) :
    ∃ new, Wd e new e' := by
  unfold checkSchedule at h
  by_cases hsd : e.flags.shuttingDown n = true
  · simp [hsd] at h; obtain ⟨_, rfl⟩ := h; exact ⟨[], Wd.refl _⟩
  · simp only [hsd] at h
    have hsent : (e.flags.get n).sent = false := by
      unfold Flags.shuttingDown at hsd
      cases hh : (e.flags.get n).sent with
      | false => rfl
      | true => simp [hh] at hsd
    by_cases hp : s.pending.isEmpty = true
    · simp [hp] at h; obtain ⟨_, rfl⟩ := h; exact shutdown_wd e n
    · simp only [hp] at h
      by_cases hz : s.node2pending.length = 0
      · simp [hz] at h
      · simp only [hz] at h
        cases hb : s.node2pending.get n with
        | error err => simp [hb, bind, Except.bind] at h
        | ok book =>
          simp only [hb, bind, Except.bind] at h
          by_cases hlt : book.length < max 2 (s.pending.length / s.node2pending.length / 4)
          · simp only [hlt] at h
            by_cases hsl : (slow && decide (book.length ≥ 2)) = true
            · simp [hsl] at h; obtain ⟨_, rfl⟩ := h; exact ⟨[], Wd.refl _⟩
            · simp only [hsl] at h
              cases hm : s.maxschedchunk with
              | none => simp [hm] at h
              | some msc =>
                simp only [hm] at h
                obtain ⟨new, w, _⟩ := sendTests_wd hsent h
                exact ⟨new, w⟩
          · simp [hlt] at h; obtain ⟨_, rfl⟩ := h; exact ⟨[], Wd.refl _⟩

theorem checkAll_wd {ns : List Nat} : ∀ {s s' : State τ} {e e' : Env}, checkAll s e ns = .ok (s', e') → ∃ new, Wd e new e' := by
  induction ns with
  | nil => intro s s' e e' h; simp only [checkAll, Except.ok.injEq, Prod.mk.injEq] at h; obtain ⟨_, rfl⟩ := h; exact ⟨[], Wd.refl _⟩
  | cons n t ih =>
    intro s s' e e' h
    simp only [checkAll] at h
    obtain ⟨⟨s1, e1⟩, h1, h2⟩ := bind_ok.1 h
    obtain ⟨n1, a1⟩ := checkSchedule_wd h1
    obtain ⟨n2, a2⟩ := ih h2
    exact ⟨n1 ++ n2, a1.trans a2⟩

theorem sendEach_wd {num : Int} {ns : List Nat} : ∀ {s s' : State τ} {e e' : Env}, (∀ n ∈ ns, (e.flags.get n).sent = false) →
    sendEach s e num ns = .ok (s', e') → ∃ new, Wd e new e' ∧ e'.flags = e.flags := by
  induction ns with
  | nil => intro s s' e e' _ h; simp only [sendEach, Except.ok.injEq, Prod.mk.injEq] at h; obtain ⟨_, rfl⟩ := h; exact ⟨[], Wd.refl _, rfl⟩
  | cons n t ih =>
    intro s s' e e' hns h
    simp only [sendEach] at h
    obtain ⟨⟨s1, e1⟩, h1, h2⟩ := bind_ok.1 h
    obtain ⟨n1, a1, f1⟩ := sendTests_wd (hns n (by simp)) h1
    obtain ⟨n2, a2, f2⟩ := ih (fun m hm => by rw [f1]; exact hns m (List.mem_cons_of_mem _ hm)) h2
    exact ⟨n1 ++ n2, a1.trans a2, f2.trans f1⟩

theorem roundRobin_wd {ns : List Nat} {k : Nat} : ∀ {i : Nat} {s s' : State τ} {e e' : Env}, (∀ n ∈ ns, (e.flags.get n).sent = false) →
    roundRobin ns s e k i = .ok (s', e') → ∃ new, Wd e new e' ∧ e'.flags = e.flags := by
  induction k with
  | zero => intro i s s' e e' _ h; simp only [roundRobin, Except.ok.injEq, Prod.mk.injEq] at h; obtain ⟨_, rfl⟩ := h; exact ⟨[], Wd.refl _, rfl⟩
  | succ k ih =>
    intro i s s' e e' hns h
    simp only [roundRobin] at h
    split at h
    · cases h
    · rename_i n hn
      obtain ⟨⟨s1, e1⟩, h1, h2⟩ := bind_ok.1 h
      obtain ⟨n1, a1, f1⟩ := sendTests_wd (hns n (List.mem_of_getElem? hn)) h1
      obtain ⟨n2, a2, f2⟩ := ih (fun m hm => by rw [f1]; exact hns m hm) h2
      exact ⟨n1 ++ n2, a1.trans a2, f2.trans f1⟩

theorem initialSend_wd {s s' : State τ} {e e' : Env} {n : Nat} {msc : Int} (hns : ∀ m ∈ nodes s, (e.flags.get m).sent = false)
    (h : initialSend s e n msc = .ok (s', e')) : ∃ new, Wd e new e' := by
  unfold initialSend at h
  obtain ⟨⟨s3, e3⟩, hsend, h⟩ := bind_ok.1 h
  have h3 : ∃ new, Wd e new e3 := by
    unfold initialDistribute at hsend
    dsimp only at hsend
    split at hsend
    · obtain ⟨new, w, _⟩ := roundRobin_wd hns hsend; exact ⟨new, w⟩
    · split at hsend
      · cases hsend
      · obtain ⟨new, w, _⟩ := sendEach_wd hns hsend; exact ⟨new, w⟩
  obtain ⟨n1, a1⟩ := h3
  split at h
  · simp only [Except.ok.injEq, Prod.mk.injEq] at h; obtain ⟨_, rfl⟩ := h
    obtain ⟨n2, a2⟩ := shutdownAll_wd e3 (nodes s3)
    exact ⟨n1 ++ n2, a1.trans a2⟩
  · simp only [Except.ok.injEq, Prod.mk.injEq] at h; obtain ⟨_, rfl⟩ := h; exact ⟨n1, a1⟩

/-- the failed collect reports of a mismatch are not commands -/
theorem reports_wd (e : Env) (ds : List SOut) (hd : ∀ o ∈ ds, ∃ n f, o = SOut.collectReport n f) :
    Wd e ds { e with outs := e.outs ++ ds } := by
  refine { outs := rfl, p1 := ?_, p2 := ?_, p3 := ?_, mono := fun _ h => h }
  · intro n _
    unfold sentTo
    rw [List.flatMap_eq_nil_iff]
    intro o ho
    obtain ⟨m, f, rfl⟩ := hd o ho
    rfl
  · intro n pre post h
    obtain ⟨m, f, hh⟩ := hd (SOut.shutdown n) (by rw [h]; simp)
    cases hh
  · intro n h
    obtain ⟨m, f, hh⟩ := hd _ h
    cases hh

/-- **one scheduler call** -/
theorem step_wd {s s' : State τ} {e e' : Env} {op : SOp τ} {r : Option τ}
    (hfirst : op = .schedule → s.collection = none → ∀ m ∈ nodes s, (e.flags.get m).sent = false)
    (h : step s e op = .ok (s', e', r)) : ∃ new, Wd e new e' := by
  cases op with
  | addNode n =>
    simp only [step] at h
    obtain ⟨s1, h1, h2⟩ := map_ok.1 h
    simp at h2; obtain ⟨_, rfl, _⟩ := h2
    exact ⟨[], Wd.refl _⟩
  | addNodeCollection n c =>
    simp only [step] at h
    obtain ⟨s1, h1, h2⟩ := map_ok.1 h
    simp at h2; obtain ⟨_, rfl, _⟩ := h2
    exact ⟨[], Wd.refl _⟩
  | schedule =>
    simp only [step] at h
    obtain ⟨⟨s1, e1⟩, h1, h2⟩ := map_ok.1 h
    simp at h2; obtain ⟨_, rfl, _⟩ := h2
    unfold schedule at h1
    split at h1
    · cases h1
    · cases hc : s.collection with
      | some col => simp only [hc] at h1; exact checkAll_wd h1
      | none =>
        simp only [hc] at h1
        split at h1
        · cases h1
        · rename_i first col rest hreg
          unfold scheduleFirst at h1
          simp only at h1
          split at h1
          · simp only [Except.ok.injEq, Prod.mk.injEq] at h1; obtain ⟨_, rfl⟩ := h1
            exact ⟨_, reports_wd e _ (by
              intro o ho
              unfold collectionDiffs at ho
              obtain ⟨p, _, rfl⟩ := List.mem_map.1 ho
              exact ⟨_, _, rfl⟩)⟩
          · rename_i hnd
            have hdiff : collectionDiffs first col rest = [] := by
              cases hh : collectionDiffs first col rest with
              | nil => rfl
              | cons a t => rw [hh] at hnd; simp at hnd
            have henv : ({ e with outs := e.outs ++ collectionDiffs first col rest } : Env) = e := by
              rw [hdiff]; simp
            split at h1
            · simp only [Except.ok.injEq, Prod.mk.injEq] at h1; obtain ⟨_, rfl⟩ := h1
              rw [henv]; exact ⟨[], Wd.refl _⟩
            · rw [henv] at h1
              refine initialSend_wd (s := _) ?_ h1
              intro m hm
              exact hfirst rfl hc m hm
  | markComplete n i slow =>
    simp only [step] at h
    obtain ⟨⟨s1, e1⟩, h1, h2⟩ := map_ok.1 h
    simp at h2; obtain ⟨_, rfl, _⟩ := h2
    unfold markComplete at h1
    obtain ⟨book, _, h1⟩ := bind_ok.1 h1
    obtain ⟨book', _, h1⟩ := bind_ok.1 h1
    exact checkSchedule_wd h1
  | markPending t =>
    simp only [step] at h
    obtain ⟨⟨s1, e1⟩, h1, h2⟩ := map_ok.1 h
    simp at h2; obtain ⟨_, rfl, _⟩ := h2
    unfold markPending at h1
    split at h1
    · cases h1
    · obtain ⟨idx, _, h1⟩ := bind_ok.1 h1
      exact checkAll_wd h1
  | removePending n is => simp [step] at h
  | removeNode n =>
    simp only [step] at h
    unfold removeNode at h
    obtain ⟨⟨book, n2p⟩, _, h⟩ := bind_ok.1 h
    simp only at h
    split at h
    · simp only [Except.ok.injEq, Prod.mk.injEq] at h; obtain ⟨_, rfl, _⟩ := h; exact ⟨[], Wd.refl _⟩
    · split at h
      · cases h
      · split at h
        · cases h
        · obtain ⟨⟨s3, e3⟩, h3, h⟩ := bind_ok.1 h
          simp only [Except.ok.injEq, Prod.mk.injEq] at h
          obtain ⟨_, rfl, _⟩ := h
          exact checkAll_wd h3

end Xdist.Load
