import XdistProofs.Sched.LoadQ
/-!
  Book/wire accounting of `LoadScheduling`: whatever a scheduler call sends, a node's book grows by exactly the tests put
  on the wire for it, the `_shutdown_sent` flag changes exactly with the shutdown commands on the wire, and nothing else
  (no steal, no run-all) is ever sent.
-/
namespace Xdist.Load
open Xdist

variable {τ : Type} [DecidableEq τ]

/-- the tests put on the wire for node `n`, in order -/
def sentTo (outs : List SOut) (n : Nat) : List Nat :=
  outs.flatMap fun o => match o with
    | .run m is => if m = n then is else []
    | _ => []

@[simp] theorem sentTo_nil (n : Nat) : sentTo [] n = [] := rfl

theorem sentTo_append (a b : List SOut) (n : Nat) : sentTo (a ++ b) n = sentTo a n ++ sentTo b n := by
  simp [sentTo, List.flatMap_append]

/-- what the load scheduler ever sends -/
def LoadOut : SOut → Prop
  | .run _ _ => True
  | .shutdown _ => True
  | .collectReport _ _ => True
  | _ => False

abbrev Books := AList Nat (List Nat)

/-- from books `b` and environment `e`, sending `new`, to books `b'` and environment `e'` -/
structure Acc (b : Books) (e : Env) (new : List SOut) (b' : Books) (e' : Env) : Prop where
  outs : e'.outs = e.outs ++ new
  /-- a book grows by what is put on the wire for its node — for a node that is already gone (`broken`) the wire stays
      silent and the book grows all the same (the tests are recovered when the node is removed) -/
  books : ∀ m book, AList.lookup b m = some book →
    ∃ extra, AList.lookup b' m = some (book ++ extra) ∧ ((e.flags.get m).broken = false → extra = sentTo new m)
  keys : AList.keys b' = AList.keys b
  tokeys : ∀ m, sentTo new m ≠ [] → m ∈ AList.keys b
  kinds : ∀ o ∈ new, LoadOut o
  other : ∀ m, (e'.flags.get m).down = (e.flags.get m).down ∧ (e'.flags.get m).broken = (e.flags.get m).broken
  sentMono : ∀ m, (e.flags.get m).sent = true → (e'.flags.get m).sent = true
  sentNew : ∀ m, (e'.flags.get m).sent = true →
    (e.flags.get m).sent = true ∨ SOut.shutdown m ∈ new ∨ (e.flags.get m).broken = true

theorem Acc.refl (b : Books) (e : Env) : Acc b e [] b e :=
  ⟨by simp, fun m book h => ⟨[], by simpa using h, fun _ => rfl⟩, rfl, fun m h => absurd rfl h, by simp, fun _ => ⟨rfl, rfl⟩,
    fun _ h => h, fun _ h => Or.inl h⟩

theorem Acc.trans {b1 b2 b3 : Books} {e1 e2 e3 : Env} {n1 n2 : List SOut}
    (x : Acc b1 e1 n1 b2 e2) (y : Acc b2 e2 n2 b3 e3) : Acc b1 e1 (n1 ++ n2) b3 e3 := by
  refine ⟨by rw [y.outs, x.outs, List.append_assoc], ?_, by rw [y.keys, x.keys], ?_, ?_, ?_, ?_, ?_⟩
  · intro m book h
    obtain ⟨x1, hx1, hx2⟩ := x.books m book h
    obtain ⟨y1, hy1, hy2⟩ := y.books m _ hx1
    refine ⟨x1 ++ y1, by rw [hy1, List.append_assoc], ?_⟩
    intro hbr
    rw [sentTo_append, hx2 hbr, hy2 (by rw [(x.other m).2]; exact hbr)]
  · intro m h
    rw [sentTo_append] at h
    by_cases h1 : sentTo n1 m = []
    · rw [h1, List.nil_append] at h
      rw [← x.keys]; exact y.tokeys m h
    · exact x.tokeys m h1
  · intro o ho
    rcases List.mem_append.1 ho with h | h
    · exact x.kinds o h
    · exact y.kinds o h
  · intro m
    exact ⟨by rw [(y.other m).1, (x.other m).1], by rw [(y.other m).2, (x.other m).2]⟩
  · intro m h; exact y.sentMono m (x.sentMono m h)
  · intro m h
    rcases y.sentNew m h with h | h | h
    · rcases x.sentNew m h with h | h | h
      · exact Or.inl h
      · exact Or.inr (Or.inl (List.mem_append_left _ h))
      · exact Or.inr (Or.inr h)
    · exact Or.inr (Or.inl (List.mem_append_right _ h))
    · exact Or.inr (Or.inr (by rw [← (x.other m).2]; exact h))

theorem shutdown_acc (b : Books) (e : Env) (n : Nat) : ∃ new, Acc b e new b (e.shutdown n) := by
  unfold Env.shutdown
  by_cases hd : ((e.flags.get n).down || (e.flags.get n).sent) = true
  · simp only [hd, if_true]; exact ⟨[], Acc.refl _ _⟩
  · simp only [hd, Bool.false_eq_true, if_false]
    by_cases hb : (e.flags.get n).broken = true
    · simp only [hb, if_true]
      refine ⟨[], by simp, fun m book h => ⟨[], by simpa using h, fun _ => rfl⟩, rfl, fun m h => absurd rfl h, by simp, ?_, ?_, ?_⟩
      · intro m; simp only [Contract.flags_get_set]; by_cases hm : m = n <;> simp [hm, hb]
      · intro m h; simp only [Contract.flags_get_set]; by_cases hm : m = n <;> simp [hm, h]
      · intro m h; simp only [Contract.flags_get_set] at h
        by_cases hm : m = n
        · subst hm; exact Or.inr (Or.inr hb)
        · simp [hm] at h; exact Or.inl h
    · simp only [hb, Bool.false_eq_true, if_false]
      refine ⟨[SOut.shutdown n], rfl, fun m book h => ⟨[], by simpa using h, fun _ => by simp [sentTo]⟩, rfl, fun m h => absurd (show sentTo [SOut.shutdown n] m = [] by simp [sentTo]) h,
        by intro o ho; simp at ho; subst ho; trivial, ?_, ?_, ?_⟩
      · intro m; simp only [Contract.flags_get_set]; by_cases hm : m = n <;> simp [hm, hb]
      · intro m h; simp only [Contract.flags_get_set]; by_cases hm : m = n <;> simp [hm, h]
      · intro m h; simp only [Contract.flags_get_set] at h
        by_cases hm : m = n
        · subst hm; exact Or.inr (Or.inl (by simp))
        · simp [hm] at h; exact Or.inl h

theorem shutdownAll_acc (b : Books) (e : Env) (ns : List Nat) : ∃ new, Acc b e new b (e.shutdownAll ns) := by
  induction ns generalizing e with
  | nil => exact ⟨[], Acc.refl _ _⟩
  | cons n t ih =>
    obtain ⟨n1, a1⟩ := shutdown_acc b e n
    obtain ⟨n2, a2⟩ := ih (e.shutdown n)
    exact ⟨n1 ++ n2, a1.trans a2⟩

theorem sendTests_acc {s s' : State τ} {e e' : Env} {n : Nat} {num : Int}
    (h : sendTests s e n num = .ok (s', e')) : ∃ new, Acc s.node2pending e new s'.node2pending e' := by
  unfold sendTests at h
  obtain ⟨k, hk1, hk2⟩ := slice_take_drop s.pending num
  simp only [hk1, hk2] at h
  by_cases hemp : (s.pending.take k).isEmpty = true
  · simp [hemp] at h
    obtain ⟨rfl, rfl⟩ := h
    exact ⟨[], Acc.refl _ _⟩
  · simp only [hemp] at h
    cases hb : s.node2pending.get n with
    | error err => simp [hb, bind, Except.bind] at h
    | ok book =>
      have hl := AList.get_eq_ok.1 hb
      simp only [hb, bind, Except.bind] at h
      unfold Env.sendRun Env.send at h
      by_cases hbr : (e.flags.get n).broken = true
      · -- the node is gone: its book grows, the wire stays silent
        simp [hbr] at h
        obtain ⟨rfl, rfl⟩ := h
        refine ⟨[], by simp, ?_, AList.keys_set_of_mem _ _ _ (by rw [hl]; rfl), fun m hm => absurd rfl hm, by simp,
          fun _ => ⟨rfl, rfl⟩, fun _ hm => hm, fun _ hm => Or.inl hm⟩
        intro m b hbm
        by_cases hm : m = n
        · subst hm
          rw [hl] at hbm; cases hbm
          exact ⟨s.pending.take k, by simp [AList.lookup_set_same], fun hf => by rw [hbr] at hf; cases hf⟩
        · exact ⟨[], by simp only; rw [AList.lookup_set_other _ _ _ _ hm, hbm]; simp, fun _ => rfl⟩
      · simp [hbr] at h
        obtain ⟨rfl, rfl⟩ := h
        refine ⟨[SOut.run n (s.pending.take k)], rfl, ?_, AList.keys_set_of_mem _ _ _ (by rw [hl]; rfl), ?_,
          by intro o ho; simp at ho; subst ho; trivial, fun _ => ⟨rfl, rfl⟩, fun _ hm => hm, fun _ hm => Or.inl hm⟩
        · intro m b hbm
          by_cases hm : m = n
          · subst hm
            rw [hl] at hbm; cases hbm
            exact ⟨s.pending.take k, by simp [AList.lookup_set_same], fun _ => by simp [sentTo]⟩
          · refine ⟨[], ?_, fun _ => by simp [sentTo, Ne.symm hm]⟩
            simp only
            rw [AList.lookup_set_other _ _ _ _ hm, hbm]
            simp
        · intro m hm
          by_cases hmn : m = n
          · subst hmn; exact (AList.lookup_isSome_iff_mem_keys _ _).1 (by rw [hl]; rfl)
          · simp [sentTo, Ne.symm hmn] at hm

theorem checkSchedule_acc {s s' : State τ} {e e' : Env} {n : Nat} {slow : Bool}
    (h : checkSchedule s e n slow = .ok (s', e')) : ∃ new, Acc s.node2pending e new s'.node2pending e' := by
  unfold checkSchedule at h
  by_cases hsd : e.flags.shuttingDown n = true
  · simp [hsd] at h; obtain ⟨rfl, rfl⟩ := h; exact ⟨[], Acc.refl _ _⟩
  · simp only [hsd] at h
    by_cases hp : s.pending.isEmpty = true
    · simp [hp] at h; obtain ⟨rfl, rfl⟩ := h; exact shutdown_acc _ _ _
    · simp only [hp] at h
      by_cases hz : s.node2pending.length = 0
      · simp [hz] at h
      · simp only [hz] at h
        cases hb : s.node2pending.get n with
        | error err => simp [hb, bind, Except.bind] at h
        | ok book =>
          simp only [hb, bind, Except.bind] at h
          by_cases hlt : book.length < max 2 (s.pending.length / s.node2pending.length / 4)
          · simp only [hlt, if_true] at h
            by_cases hslow : (slow && decide (book.length ≥ 2)) = true
            · simp only [hslow, if_true] at h
              simp at h; obtain ⟨rfl, rfl⟩ := h; exact ⟨[], Acc.refl _ _⟩
            · simp only [hslow] at h
              cases hm : s.maxschedchunk with
              | none => simp [hm] at h
              | some msc =>
                simp only [hm] at h
                exact sendTests_acc h
          · simp [hlt] at h; obtain ⟨rfl, rfl⟩ := h; exact ⟨[], Acc.refl _ _⟩

theorem checkAll_acc {s s' : State τ} {e e' : Env} {ns : List Nat} (h : checkAll s e ns = .ok (s', e')) :
    ∃ new, Acc s.node2pending e new s'.node2pending e' := by
  induction ns generalizing s e with
  | nil =>
    simp only [checkAll, Except.ok.injEq, Prod.mk.injEq] at h
    obtain ⟨rfl, rfl⟩ := h
    exact ⟨[], Acc.refl _ _⟩
  | cons n t ih =>
    simp only [checkAll] at h
    obtain ⟨r, hr, h2⟩ := bind_ok.1 h
    obtain ⟨n1, a1⟩ := checkSchedule_acc hr
    obtain ⟨n2, a2⟩ := ih h2
    exact ⟨n1 ++ n2, a1.trans a2⟩

theorem sendEach_acc {s s' : State τ} {e e' : Env} {num : Int} {ns : List Nat} (h : sendEach s e num ns = .ok (s', e')) :
    ∃ new, Acc s.node2pending e new s'.node2pending e' := by
  induction ns generalizing s e with
  | nil =>
    simp only [sendEach, Except.ok.injEq, Prod.mk.injEq] at h
    obtain ⟨rfl, rfl⟩ := h
    exact ⟨[], Acc.refl _ _⟩
  | cons n t ih =>
    simp only [sendEach] at h
    obtain ⟨r, hr, h2⟩ := bind_ok.1 h
    obtain ⟨n1, a1⟩ := sendTests_acc hr
    obtain ⟨n2, a2⟩ := ih h2
    exact ⟨n1 ++ n2, a1.trans a2⟩

theorem roundRobin_acc {ns : List Nat} {k i : Nat} {s s' : State τ} {e e' : Env} (h : roundRobin ns s e k i = .ok (s', e')) :
    ∃ new, Acc s.node2pending e new s'.node2pending e' := by
  induction k generalizing s e i with
  | zero =>
    simp only [roundRobin, Except.ok.injEq, Prod.mk.injEq] at h
    obtain ⟨rfl, rfl⟩ := h
    exact ⟨[], Acc.refl _ _⟩
  | succ k ih =>
    simp only [roundRobin] at h
    split at h
    · simp at h
    · obtain ⟨r, hr, h2⟩ := bind_ok.1 h
      obtain ⟨n1, a1⟩ := sendTests_acc hr
      obtain ⟨n2, a2⟩ := ih h2
      exact ⟨n1 ++ n2, a1.trans a2⟩

theorem initialSend_acc {s s' : State τ} {e e' : Env} {k : Nat} {msc : Int} (h : initialSend s e k msc = .ok (s', e')) :
    ∃ new, Acc s.node2pending e new s'.node2pending e' := by
  unfold initialSend at h
  obtain ⟨r, hr, h2⟩ := bind_ok.1 h
  obtain ⟨n1, a1⟩ : ∃ new, Acc s.node2pending e new r.1.node2pending r.2 := by
    unfold initialDistribute at hr
    simp only at hr
    split at hr
    · exact roundRobin_acc hr
    · split at hr
      · simp at hr
      · exact sendEach_acc hr
  split at h2
  · simp only [Except.ok.injEq, Prod.mk.injEq] at h2
    obtain ⟨rfl, rfl⟩ := h2
    obtain ⟨n2, a2⟩ := shutdownAll_acc r.1.node2pending r.2 (nodes r.1)
    exact ⟨n1 ++ n2, a1.trans a2⟩
  · simp only [Except.ok.injEq, Prod.mk.injEq] at h2
    obtain ⟨rfl, rfl⟩ := h2
    exact ⟨n1, a1⟩

theorem reports_acc (b : Books) (e : Env) (ds : List SOut) (hd : ∀ o ∈ ds, ∃ n f, o = SOut.collectReport n f) :
    Acc b e ds b { e with outs := e.outs ++ ds } := by
  have hs : ∀ m, sentTo ds m = [] := by
    intro m
    induction ds with
    | nil => rfl
    | cons o t ih =>
      obtain ⟨n, f, ho⟩ := hd o (by simp)
      subst ho
      have := ih (fun o ho => hd o (by simp [ho]))
      simp [sentTo] at this ⊢
      exact this
  refine ⟨rfl, fun m book h => ⟨[], by simpa using h, fun _ => (hs m).symm⟩, rfl, fun m h => absurd (hs m) h, ?_, fun _ => ⟨rfl, rfl⟩,
    fun _ h => h, fun _ h => Or.inl h⟩
  intro o ho
  obtain ⟨n, f, rfl⟩ := hd o ho
  trivial

theorem schedule_acc {s s' : State τ} {e e' : Env} (h : schedule s e = .ok (s', e')) :
    ∃ new, Acc s.node2pending e new s'.node2pending e' := by
  unfold schedule at h
  split at h
  · simp at h
  · split at h
    · exact checkAll_acc h
    · split at h
      · simp at h
      · rename_i first col rest _
        unfold scheduleFirst at h
        simp only at h
        have hrep : ∀ o ∈ collectionDiffs first col rest, ∃ n f, o = SOut.collectReport n f := by
          intro o ho
          simp only [collectionDiffs, List.mem_map] at ho
          obtain ⟨p, _, rfl⟩ := ho
          exact ⟨_, _, rfl⟩
        have a0 := reports_acc s.node2pending e (collectionDiffs first col rest) hrep
        split at h
        · simp only [Except.ok.injEq, Prod.mk.injEq] at h
          obtain ⟨rfl, rfl⟩ := h
          exact ⟨_, a0⟩
        · split at h
          · simp only [Except.ok.injEq, Prod.mk.injEq] at h
            obtain ⟨rfl, rfl⟩ := h
            exact ⟨_, a0⟩
          · obtain ⟨n2, a2⟩ := initialSend_acc h
            exact ⟨_, a0.trans a2⟩

/-- what one scheduler call does to the books and the wire, per operation -/
inductive OpAcc : SOp τ → Books → Env → List SOut → Books → Env → Prop where
  | addNode {b : Books} {e : Env} {n : Nat} (hn : AList.lookup b n = none) : OpAcc (.addNode n) b e [] (AList.set b n []) e
  | addNodeCollection {b : Books} {e : Env} {n : Nat} {c : List τ} : OpAcc (.addNodeCollection n c) b e [] b e
  | schedule {b b' : Books} {e e' : Env} {new : List SOut} (a : Acc b e new b' e') : OpAcc .schedule b e new b' e'
  | markComplete {b b' : Books} {e e' : Env} {new : List SOut} {n i : Nat} {slow : Bool} {book : List Nat}
      (hb : AList.lookup b n = some book) (hi : i ∈ book) (a : Acc (AList.set b n (book.erase i)) e new b' e') :
      OpAcc (.markComplete n i slow) b e new b' e'
  | markPending {b b' : Books} {e e' : Env} {new : List SOut} {t : τ} (a : Acc b e new b' e') : OpAcc (.markPending t) b e new b' e'
  | removeNode {b b' : Books} {e e' : Env} {new : List SOut} {n : Nat} {book : List Nat}
      (hb : AList.lookup b n = some book) (a : Acc (AList.erase b n) e new b' e') : OpAcc (.removeNode n) b e new b' e'

theorem step_opAcc {s s' : State τ} {e e' : Env} {op : SOp τ} {r : Option τ} (h : step s e op = .ok (s', e', r)) :
    ∃ new, OpAcc op s.node2pending e new s'.node2pending e' := by
  cases op with
  | addNode n =>
    simp only [step] at h
    obtain ⟨a, ha, hb⟩ := map_ok.1 h
    simp only [Prod.mk.injEq] at hb
    obtain ⟨rfl, rfl, _⟩ := hb
    unfold addNode at ha
    split at ha
    · simp at ha
    · rename_i hc
      simp only [Except.ok.injEq] at ha; subst ha
      refine ⟨[], OpAcc.addNode ?_⟩
      simp only [AList.contains] at hc
      cases hh : AList.lookup s.node2pending n with
      | none => rfl
      | some b => rw [hh] at hc; simp at hc
  | addNodeCollection n c =>
    simp only [step] at h
    obtain ⟨a, ha, hb⟩ := map_ok.1 h
    simp only [Prod.mk.injEq] at hb
    obtain ⟨rfl, rfl, _⟩ := hb
    have : a.node2pending = s.node2pending := by
      unfold addNodeCollection at ha
      split at ha
      · simp at ha
      · split at ha
        · split at ha
          · simp at ha
          · split at ha
            · simp at ha
            · split at ha <;> (simp only [Except.ok.injEq] at ha; subst ha; rfl)
        · simp only [Except.ok.injEq] at ha; subst ha; rfl
    rw [this]
    exact ⟨[], OpAcc.addNodeCollection⟩
  | schedule =>
    simp only [step] at h
    obtain ⟨a, ha, hb⟩ := map_ok.1 h
    simp only [Prod.mk.injEq] at hb
    obtain ⟨rfl, rfl, _⟩ := hb
    obtain ⟨new, acc⟩ := schedule_acc (show schedule s e = .ok (a.1, a.2) by rw [ha])
    exact ⟨new, OpAcc.schedule acc⟩
  | markComplete n i slow =>
    simp only [step] at h
    obtain ⟨a, ha, hb⟩ := map_ok.1 h
    simp only [Prod.mk.injEq] at hb
    obtain ⟨rfl, rfl, _⟩ := hb
    unfold markComplete at ha
    obtain ⟨book, hbk, h1⟩ := bind_ok.1 ha
    obtain ⟨book', hrm, h2⟩ := bind_ok.1 h1
    unfold PyList.remove at hrm
    split at hrm
    · rename_i hi
      simp only [Except.ok.injEq] at hrm; subst hrm
      obtain ⟨new, acc⟩ := checkSchedule_acc (show checkSchedule _ e n slow = .ok (a.1, a.2) from h2)
      exact ⟨new, OpAcc.markComplete (AList.get_eq_ok.1 hbk) hi acc⟩
    · simp at hrm
  | markPending t =>
    simp only [step] at h
    obtain ⟨a, ha, hb⟩ := map_ok.1 h
    simp only [Prod.mk.injEq] at hb
    obtain ⟨rfl, rfl, _⟩ := hb
    unfold markPending at ha
    split at ha
    · simp at ha
    · obtain ⟨idx, _, h1⟩ := bind_ok.1 ha
      obtain ⟨new, acc⟩ := checkAll_acc (s := { s with pending := idx :: s.pending }) (show checkAll _ e _ = .ok (a.1, a.2) from h1)
      exact ⟨new, OpAcc.markPending acc⟩
  | removePending n is => simp [step] at h
  | removeNode n =>
    simp only [step] at h
    unfold removeNode at h
    obtain ⟨⟨book, n2p⟩, hp, h1⟩ := bind_ok.1 h
    obtain ⟨hl, rfl⟩ := AList.pop_eq_ok.1 hp
    simp only at h1
    split at h1
    · simp only [Except.ok.injEq, Prod.mk.injEq] at h1
      obtain ⟨rfl, rfl, _⟩ := h1
      exact ⟨[], OpAcc.removeNode hl (Acc.refl _ _)⟩
    · split at h1
      · simp at h1
      · split at h1
        · simp at h1
        · obtain ⟨⟨s3, e3⟩, hca, h2⟩ := bind_ok.1 h1
          simp only [Except.ok.injEq, Prod.mk.injEq] at h2
          obtain ⟨rfl, rfl, _⟩ := h2
          obtain ⟨new, acc⟩ := checkAll_acc hca
          exact ⟨new, OpAcc.removeNode hl acc⟩

end Xdist.Load
