import XdistProofs.Sched.LoadWd
/-!
  While there are tests left in the pool, `LoadScheduling` tells nobody to shut down: a scheduler call after which the pool is
  not empty has left the flags alone, and the pool was not empty before unless the call put tests back (`remove_node`,
  `mark_test_pending`, the first `schedule()`).
-/
namespace Xdist.Load
open Xdist Xdist.Contract

variable {τ : Type} [DecidableEq τ]

theorem sendEach_flags {num : Int} {ns : List Nat} : ∀ {s s' : State τ} {e e' : Env}, sendEach s e num ns = .ok (s', e') →
    e'.flags = e.flags := by
  induction ns with
  | nil => intro s s' e e' h; simp only [sendEach, Except.ok.injEq, Prod.mk.injEq] at h; obtain ⟨_, rfl⟩ := h; rfl
  | cons n t ih =>
    intro s s' e e' h
    simp only [sendEach] at h
    obtain ⟨⟨s1, e1⟩, h1, h2⟩ := bind_ok.1 h
    rw [ih h2, (sendTests_flags h1).1]

theorem roundRobin_flags {ns : List Nat} {k : Nat} : ∀ {i : Nat} {s s' : State τ} {e e' : Env}, roundRobin ns s e k i = .ok (s', e') →
    e'.flags = e.flags := by
  induction k with
  | zero => intro i s s' e e' h; simp only [roundRobin, Except.ok.injEq, Prod.mk.injEq] at h; obtain ⟨_, rfl⟩ := h; rfl
  | succ k ih =>
    intro i s s' e e' h
    simp only [roundRobin] at h
    split at h
    · cases h
    · obtain ⟨⟨s1, e1⟩, h1, h2⟩ := bind_ok.1 h
      rw [ih h2, (sendTests_flags h1).1]

theorem initialSend_j {s s' : State τ} {e e' : Env} {n : Nat} {msc : Int} (h : initialSend s e n msc = .ok (s', e')) :
    s'.pending ≠ [] → e'.flags = e.flags := by
  intro hp
  unfold initialSend at h
  obtain ⟨⟨s3, e3⟩, hsend, h⟩ := bind_ok.1 h
  have h3 : e3.flags = e.flags := by
    unfold initialDistribute at hsend
    dsimp only at hsend
    split at hsend
    · exact roundRobin_flags hsend
    · split at hsend
      · cases hsend
      · exact sendEach_flags hsend
  split at h
  · rename_i hemp
    simp only [Except.ok.injEq, Prod.mk.injEq] at h; obtain ⟨rfl, _⟩ := h
    exact absurd (List.isEmpty_iff.1 hemp) hp
  · simp only [Except.ok.injEq, Prod.mk.injEq] at h; obtain ⟨_, rfl⟩ := h; exact h3

theorem checkSchedule_j {s s' : State τ} {e e' : Env} {n : Nat} {slow : Bool} (h : checkSchedule s e n slow = .ok (s', e')) :
    s'.pending ≠ [] → e'.flags = e.flags := by
  intro hp
  unfold checkSchedule at h
  by_cases hsd : e.flags.shuttingDown n = true
  · simp [hsd] at h; obtain ⟨_, rfl⟩ := h; rfl
  · simp only [hsd] at h
    by_cases hpe : s.pending.isEmpty = true
    · simp [hpe] at h; obtain ⟨rfl, _⟩ := h
      exact absurd (List.isEmpty_iff.1 hpe) hp
    · simp only [hpe] at h
      by_cases hz : s.node2pending.length = 0
      · simp [hz] at h
      · simp only [hz] at h
        cases hb : s.node2pending.get n with
        | error err => simp [hb, bind, Except.bind] at h
        | ok book =>
          simp only [hb, bind, Except.bind] at h
          by_cases hlt : book.length < max 2 (s.pending.length / s.node2pending.length / 4)
          · simp only [hlt] at h
            by_cases hsl : (slow && decide (book.length ≥ 2)) = true
            · simp [hsl] at h; obtain ⟨_, rfl⟩ := h; rfl
            · simp only [hsl] at h
              cases hm : s.maxschedchunk with
              | none => simp [hm] at h
              | some msc =>
                simp only [hm] at h
                exact (sendTests_flags h).1
          · simp [hlt] at h; obtain ⟨_, rfl⟩ := h; rfl

theorem checkAll_j {ns : List Nat} : ∀ {s s' : State τ} {e e' : Env}, checkAll s e ns = .ok (s', e') →
    (s'.pending ≠ [] → e'.flags = e.flags) ∧ (s.pending = [] → s'.pending = []) := by
  induction ns with
  | nil =>
    intro s s' e e' h
    simp only [checkAll, Except.ok.injEq, Prod.mk.injEq] at h
    obtain ⟨rfl, rfl⟩ := h
    exact ⟨fun _ => rfl, fun hh => hh⟩
  | cons n t ih =>
    intro s s' e e' h
    simp only [checkAll] at h
    obtain ⟨⟨s1, e1⟩, h1, h2⟩ := bind_ok.1 h
    obtain ⟨a1, a2⟩ := ih h2
    have k1 := (checkSchedule_keep h1).2.2.2
    refine ⟨?_, fun hh => a2 (k1 hh)⟩
    intro hp
    have hp1 : s1.pending ≠ [] := fun hh => hp (a2 hh)
    rw [a1 hp, checkSchedule_j h1 hp1]

/-- one scheduler call after which tests are left in the pool has told nobody to shut down -/
theorem step_j {s s' : State τ} {e e' : Env} {op : SOp τ} {r : Option τ} (h : step s e op = .ok (s', e', r)) :
    s'.pending ≠ [] → e'.flags = e.flags := by
  intro hp
  cases op with
  | addNode n =>
    simp only [step] at h
    obtain ⟨s1, h1, h2⟩ := map_ok.1 h
    simp at h2; obtain ⟨_, rfl, _⟩ := h2; rfl
  | addNodeCollection n c =>
    simp only [step] at h
    obtain ⟨s1, h1, h2⟩ := map_ok.1 h
    simp at h2; obtain ⟨_, rfl, _⟩ := h2; rfl
  | schedule =>
    simp only [step] at h
    obtain ⟨⟨s1, e1⟩, h1, h2⟩ := map_ok.1 h
    simp at h2; obtain ⟨rfl, rfl, _⟩ := h2
    unfold schedule at h1
    split at h1
    · cases h1
    · cases hc : s.collection with
      | some col => simp only [hc] at h1; exact (checkAll_j h1).1 hp
      | none =>
        simp only [hc] at h1
        split at h1
        · cases h1
        · rename_i first col rest hreg
          unfold scheduleFirst at h1
          simp only at h1
          split at h1
          · simp only [Except.ok.injEq, Prod.mk.injEq] at h1; obtain ⟨_, rfl⟩ := h1; rfl
          · split at h1
            · simp only [Except.ok.injEq, Prod.mk.injEq] at h1; obtain ⟨_, rfl⟩ := h1; rfl
            · exact initialSend_j (e := { flags := e.flags, outs := e.outs ++ collectionDiffs first col rest }) h1 hp
  | markComplete n i slow =>
    simp only [step] at h
    obtain ⟨⟨s1, e1⟩, h1, h2⟩ := map_ok.1 h
    simp at h2; obtain ⟨rfl, rfl, _⟩ := h2
    unfold markComplete at h1
    obtain ⟨book, _, h1⟩ := bind_ok.1 h1
    obtain ⟨book', _, h1⟩ := bind_ok.1 h1
    exact checkSchedule_j h1 hp
  | markPending t =>
    simp only [step] at h
    obtain ⟨⟨s1, e1⟩, h1, h2⟩ := map_ok.1 h
    simp at h2; obtain ⟨rfl, rfl, _⟩ := h2
    unfold markPending at h1
    split at h1
    · cases h1
    · obtain ⟨idx, _, h1⟩ := bind_ok.1 h1
      exact (checkAll_j h1).1 hp
  | removePending n is => simp [step] at h
  | removeNode n =>
    simp only [step] at h
    unfold removeNode at h
    obtain ⟨⟨book, n2p⟩, _, h⟩ := bind_ok.1 h
    simp only at h
    split at h
    · simp only [Except.ok.injEq, Prod.mk.injEq] at h; obtain ⟨_, rfl, _⟩ := h; rfl
    · split at h
      · cases h
      · split at h
        · cases h
        · obtain ⟨⟨s3, e3⟩, h3, h⟩ := bind_ok.1 h
          simp only [Except.ok.injEq, Prod.mk.injEq] at h
          obtain ⟨rfl, rfl, _⟩ := h
          exact (checkAll_j h3).1 hp

/-- calls that put nothing back leave an empty pool empty -/
theorem step_pool_nil {s s' : State τ} {e e' : Env} {op : SOp τ} {r : Option τ} (h : step s e op = .ok (s', e', r))
    (hop : (∀ n, op ≠ .removeNode n) ∧ (∀ t, op ≠ .markPending t) ∧ (op = .schedule → s.collection ≠ none)) :
    s.pending = [] → s'.pending = [] := by
  intro hp
  cases op with
  | addNode n =>
    simp only [step] at h
    obtain ⟨s1, h1, h2⟩ := map_ok.1 h
    simp at h2; obtain ⟨rfl, _, _⟩ := h2
    unfold addNode at h1
    split at h1
    · cases h1
    · simp only [Except.ok.injEq] at h1; subst h1; exact hp
  | addNodeCollection n c =>
    simp only [step] at h
    obtain ⟨s1, h1, h2⟩ := map_ok.1 h
    simp at h2; obtain ⟨rfl, _, _⟩ := h2
    obtain ⟨hv, _, _, _⟩ := addNodeCollection_view h1
    have := congrArg View.pool hv
    simp only [view] at this
    rw [this]; exact hp
  | schedule =>
    simp only [step] at h
    obtain ⟨⟨s1, e1⟩, h1, h2⟩ := map_ok.1 h
    simp at h2; obtain ⟨rfl, _, _⟩ := h2
    unfold schedule at h1
    split at h1
    · cases h1
    · cases hc : s.collection with
      | some col => simp only [hc] at h1; exact (checkAll_j h1).2 hp
      | none => exact absurd hc (hop.2.2 rfl)
  | markComplete n i slow =>
    simp only [step] at h
    obtain ⟨⟨s1, e1⟩, h1, h2⟩ := map_ok.1 h
    simp at h2; obtain ⟨rfl, _, _⟩ := h2
    unfold markComplete at h1
    obtain ⟨book, _, h1⟩ := bind_ok.1 h1
    obtain ⟨book', _, h1⟩ := bind_ok.1 h1
    exact (checkSchedule_keep h1).2.2.2 hp
  | markPending t => exact absurd rfl (hop.2.1 t)
  | removePending n is => simp [step] at h
  | removeNode n => exact absurd rfl (hop.1 n)

end Xdist.Load
