import XdistProofs.Sched.LoadQG
/-!
  Whom the load scheduler addresses: every command put on the wire by a scheduler call is addressed to a node that has a
  book (a key of `node2pending`).
-/
namespace Xdist.Load
open Xdist Xdist.Contract

variable {τ : Type} [DecidableEq τ]

/-- `e'` extends the wire of `e` by commands addressed to nodes of `K` only -/
def Tg (K : List Nat) (e e' : Env) : Prop :=
  ∃ new, e'.outs = e.outs ++ new ∧ ∀ o ∈ new, ∀ n, cmdNode o = some n → n ∈ K

theorem Tg.refl (K : List Nat) (e : Env) : Tg K e e := ⟨[], by simp, by simp⟩

theorem Tg.trans {K : List Nat} {e1 e2 e3 : Env} (a : Tg K e1 e2) (b : Tg K e2 e3) : Tg K e1 e3 := by
  obtain ⟨n1, h1, t1⟩ := a
  obtain ⟨n2, h2, t2⟩ := b
  refine ⟨n1 ++ n2, by rw [h2, h1, List.append_assoc], ?_⟩
  intro o ho n hn
  rcases List.mem_append.1 ho with ho | ho
  · exact t1 o ho n hn
  · exact t2 o ho n hn

theorem shutdown_tg {K : List Nat} (e : Env) {n : Nat} (hn : n ∈ K) : Tg K e (e.shutdown n) := by
  unfold Env.shutdown
  simp only
  split
  · exact Tg.refl K e
  · split
    · exact ⟨[], by simp, by simp⟩
    · refine ⟨[SOut.shutdown n], rfl, ?_⟩
      intro o ho m hm
      simp at ho; subst ho
      simp [cmdNode] at hm; subst hm; exact hn

theorem shutdownAll_tg {K : List Nat} (e : Env) (ns : List Nat) (h : ∀ n ∈ ns, n ∈ K) : Tg K e (e.shutdownAll ns) := by
  induction ns generalizing e with
  | nil => exact Tg.refl K e
  | cons n t ih =>
    simp only [Env.shutdownAll]
    exact (shutdown_tg e (h n (by simp))).trans (ih _ (fun m hm => h m (by simp [hm])))

theorem sendTests_tg {s s' : State τ} {e e' : Env} {n : Nat} {num : Int}
    (h : sendTests s e n num = .ok (s', e')) : Tg (AList.keys s.node2pending) e e' := by
  unfold sendTests at h
  simp only at h
  split at h
  · simp only [Except.ok.injEq, Prod.mk.injEq] at h
    obtain ⟨_, rfl⟩ := h
    exact Tg.refl _ _
  · cases hb : s.node2pending.get n with
    | error err => simp [hb, bind, Except.bind] at h
    | ok book =>
      have hl := AList.get_eq_ok.1 hb
      have hk : n ∈ AList.keys s.node2pending := (AList.lookup_isSome_iff_mem_keys _ _).1 (by rw [hl]; rfl)
      simp only [hb, bind, Except.bind] at h
      unfold Env.sendRun Env.send at h
      by_cases hbr : (e.flags.get n).broken = true
      · simp [hbr] at h
        obtain ⟨_, rfl⟩ := h
        exact Tg.refl _ _
      · simp [hbr] at h
        obtain ⟨_, rfl⟩ := h
        refine ⟨[SOut.run n _], rfl, ?_⟩
        intro o ho m hm
        simp at ho; subst ho
        simp [cmdNode] at hm; subst hm; exact hk

theorem checkSchedule_tg {s s' : State τ} {e e' : Env} {n : Nat} {slow : Bool} (hn : n ∈ AList.keys s.node2pending)
    (h : checkSchedule s e n slow = .ok (s', e')) : Tg (AList.keys s.node2pending) e e' := by
  unfold checkSchedule at h
  by_cases hsd : e.flags.shuttingDown n = true
  · simp [hsd] at h; obtain ⟨_, rfl⟩ := h; exact Tg.refl _ _
  · simp only [hsd] at h
    by_cases hp : s.pending.isEmpty = true
    · simp [hp] at h; obtain ⟨_, rfl⟩ := h; exact shutdown_tg e hn
    · simp only [hp] at h
      by_cases hz : s.node2pending.length = 0
      · simp [hz] at h
      · simp only [hz] at h
        cases hb : s.node2pending.get n with
        | error err => simp [hb, bind, Except.bind] at h
        | ok book =>
          simp only [hb, bind, Except.bind] at h
          by_cases hlt : book.length < max 2 (s.pending.length / s.node2pending.length / 4)
          · simp only [hlt, if_true] at h
            by_cases hslow : (slow && decide (book.length ≥ 2)) = true
            · simp only [hslow, if_true] at h
              simp at h; obtain ⟨_, rfl⟩ := h; exact Tg.refl _ _
            · simp only [hslow] at h
              cases hm : s.maxschedchunk with
              | none => simp [hm] at h
              | some msc =>
                simp only [hm] at h
                exact sendTests_tg h
          · simp [hlt] at h; obtain ⟨_, rfl⟩ := h; exact Tg.refl _ _

theorem checkAll_tg {s s' : State τ} {e e' : Env} {ns : List Nat} (hns : ∀ n ∈ ns, n ∈ AList.keys s.node2pending)
    (h : checkAll s e ns = .ok (s', e')) : Tg (AList.keys s.node2pending) e e' := by
  induction ns generalizing s e with
  | nil =>
    simp only [checkAll, Except.ok.injEq, Prod.mk.injEq] at h
    obtain ⟨_, rfl⟩ := h
    exact Tg.refl _ _
  | cons n t ih =>
    simp only [checkAll] at h
    obtain ⟨r, hr, h2⟩ := bind_ok.1 h
    have f := checkSchedule_frame hr
    have t1 := checkSchedule_tg (hns n (by simp)) hr
    have t2 := ih (s := r.1) (by intro m hm; rw [f.keys]; exact hns m (by simp [hm])) h2
    rw [f.keys] at t2
    exact t1.trans t2

theorem sendEach_tg {s s' : State τ} {e e' : Env} {num : Int} {ns : List Nat} (h : sendEach s e num ns = .ok (s', e')) :
    Tg (AList.keys s.node2pending) e e' := by
  induction ns generalizing s e with
  | nil =>
    simp only [sendEach, Except.ok.injEq, Prod.mk.injEq] at h
    obtain ⟨_, rfl⟩ := h
    exact Tg.refl _ _
  | cons n t ih =>
    simp only [sendEach] at h
    obtain ⟨r, hr, h2⟩ := bind_ok.1 h
    have f := sendTests_frame hr
    have t2 := ih h2
    rw [f.keys] at t2
    exact (sendTests_tg hr).trans t2

theorem roundRobin_tg {ns : List Nat} {k i : Nat} {s s' : State τ} {e e' : Env} (h : roundRobin ns s e k i = .ok (s', e')) :
    Tg (AList.keys s.node2pending) e e' := by
  induction k generalizing s e i with
  | zero =>
    simp only [roundRobin, Except.ok.injEq, Prod.mk.injEq] at h
    obtain ⟨_, rfl⟩ := h
    exact Tg.refl _ _
  | succ k ih =>
    simp only [roundRobin] at h
    split at h
    · simp at h
    · obtain ⟨r, hr, h2⟩ := bind_ok.1 h
      have f := sendTests_frame hr
      have t2 := ih h2
      rw [f.keys] at t2
      exact (sendTests_tg hr).trans t2

theorem initialDistribute_tg {s s' : State τ} {e e' : Env} {n : Nat} {msc : Int}
    (h : initialDistribute s e n msc = .ok (s', e')) :
    Tg (AList.keys s.node2pending) e e' ∧ AList.keys s'.node2pending = AList.keys s.node2pending := by
  unfold initialDistribute at h
  simp only at h
  by_cases hlt : s.pending.length < 2 * (nodes s).length
  · simp only [hlt, ↓reduceIte] at h
    obtain ⟨nw, acc⟩ := roundRobin_acc h
    exact ⟨roundRobin_tg h, acc.keys⟩
  · simp only [hlt, ↓reduceIte] at h
    by_cases hz : s.node2pending.length = 0
    · simp [hz] at h
    · simp only [hz, ↓reduceIte] at h
      obtain ⟨nw, acc⟩ := sendEach_acc h
      exact ⟨sendEach_tg h, acc.keys⟩

theorem schedule_tg {s s' : State τ} {e e' : Env} (h : schedule s e = .ok (s', e')) : Tg (AList.keys s.node2pending) e e' := by
  unfold schedule at h
  split at h
  · simp at h
  · split at h
    · exact checkAll_tg (fun n hn => hn) h
    · split at h
      · simp at h
      · rename_i first col rest _
        unfold scheduleFirst at h
        simp only at h
        have t0 : Tg (AList.keys s.node2pending) e { e with outs := e.outs ++ collectionDiffs first col rest } := by
          refine ⟨collectionDiffs first col rest, rfl, ?_⟩
          intro o ho n hn
          simp only [collectionDiffs, List.mem_map] at ho
          obtain ⟨p, _, rfl⟩ := ho
          simp [cmdNode] at hn
        split at h
        · simp only [Except.ok.injEq, Prod.mk.injEq] at h
          obtain ⟨_, rfl⟩ := h
          exact t0
        · split at h
          · simp only [Except.ok.injEq, Prod.mk.injEq] at h
            obtain ⟨_, rfl⟩ := h
            exact t0
          · refine t0.trans ?_
            unfold initialSend at h
            obtain ⟨r, hr, h2⟩ := bind_ok.1 h
            have t1 := initialDistribute_tg hr
            simp only at t1
            split at h2
            · simp only [Except.ok.injEq, Prod.mk.injEq] at h2
              obtain ⟨_, rfl⟩ := h2
              refine t1.1.trans (shutdownAll_tg _ _ ?_)
              intro n hn
              rw [← t1.2]; exact hn
            · simp only [Except.ok.injEq, Prod.mk.injEq] at h2
              obtain ⟨_, rfl⟩ := h2
              exact t1.1

/-- **every command of a scheduler call is addressed to a node that has a book** (before or after the call) -/
theorem step_tg {s s' : State τ} {e e' : Env} {op : SOp τ} {r : Option τ} (h : step s e op = .ok (s', e', r)) :
    Tg (AList.keys s.node2pending) e e' := by
  cases op with
  | addNode n =>
    simp only [step] at h
    obtain ⟨a, ha, hb⟩ := map_ok.1 h
    simp only [Prod.mk.injEq] at hb
    obtain ⟨_, rfl, _⟩ := hb
    exact Tg.refl _ _
  | addNodeCollection n c =>
    simp only [step] at h
    obtain ⟨a, ha, hb⟩ := map_ok.1 h
    simp only [Prod.mk.injEq] at hb
    obtain ⟨_, rfl, _⟩ := hb
    exact Tg.refl _ _
  | schedule =>
    simp only [step] at h
    obtain ⟨a, ha, hb⟩ := map_ok.1 h
    simp only [Prod.mk.injEq] at hb
    obtain ⟨_, rfl, _⟩ := hb
    exact schedule_tg (show schedule s e = .ok (a.1, a.2) by rw [ha])
  | markComplete n i slow =>
    simp only [step] at h
    obtain ⟨a, ha, hb⟩ := map_ok.1 h
    simp only [Prod.mk.injEq] at hb
    obtain ⟨_, rfl, _⟩ := hb
    unfold markComplete at ha
    obtain ⟨book, hbk, h1⟩ := bind_ok.1 ha
    obtain ⟨book', _, h2⟩ := bind_ok.1 h1
    have hl := AList.get_eq_ok.1 hbk
    have hk : AList.keys (s.node2pending.set n book') = AList.keys s.node2pending :=
      AList.keys_set_of_mem _ _ _ (by rw [hl]; rfl)
    have hn : n ∈ AList.keys s.node2pending := (AList.lookup_isSome_iff_mem_keys _ _).1 (by rw [hl]; rfl)
    have := checkSchedule_tg (s := { s with node2pending := s.node2pending.set n book' }) (by simp only; rw [hk]; exact hn) h2
    simp only at this
    rw [hk] at this
    exact this
  | markPending t =>
    simp only [step] at h
    obtain ⟨a, ha, hb⟩ := map_ok.1 h
    simp only [Prod.mk.injEq] at hb
    obtain ⟨_, rfl, _⟩ := hb
    unfold markPending at ha
    split at ha
    · simp at ha
    · obtain ⟨idx, _, h1⟩ := bind_ok.1 ha
      exact checkAll_tg (s := { s with pending := idx :: s.pending }) (fun n hn => hn) h1
  | removePending n is => simp [step] at h
  | removeNode n =>
    simp only [step] at h
    unfold removeNode at h
    obtain ⟨⟨book, n2p⟩, hp, h1⟩ := bind_ok.1 h
    obtain ⟨hl, rfl⟩ := AList.pop_eq_ok.1 hp
    simp only at h1
    split at h1
    · simp only [Except.ok.injEq, Prod.mk.injEq] at h1
      obtain ⟨_, rfl, _⟩ := h1
      exact Tg.refl _ _
    · split at h1
      · simp at h1
      · split at h1
        · simp at h1
        · obtain ⟨⟨s3, e3⟩, hca, h2⟩ := bind_ok.1 h1
          simp only [Except.ok.injEq, Prod.mk.injEq] at h2
          obtain ⟨_, rfl, _⟩ := h2
          obtain ⟨nw, h1', t1⟩ := checkAll_tg (fun n hn => hn) hca
          refine ⟨nw, h1', ?_⟩
          intro o ho m hm
          exact AList.mem_keys_of_mem_keys_erase _ _ _ (t1 o ho m hm)

end Xdist.Load

namespace Xdist.Load
open Xdist

variable {τ : Type} [DecidableEq τ]

theorem sendTests_no_keyError {s : State τ} {e : Env} {n : Nat} {num : Int} (hn : n ∈ AList.keys s.node2pending) :
    sendTests s e n num ≠ .error .keyError := by
  intro h
  obtain ⟨book, hb⟩ : ∃ b, AList.lookup s.node2pending n = some b := by
    have := (AList.lookup_isSome_iff_mem_keys s.node2pending n).2 hn
    cases hl : AList.lookup s.node2pending n with
    | none => rw [hl] at this; cases this
    | some b => exact ⟨b, rfl⟩
  have hget : s.node2pending.get n = .ok book := AList.get_eq_ok.2 hb
  unfold sendTests at h
  simp only at h
  by_cases hemp : (PyList.sliceTo s.pending num).isEmpty = true
  · simp [hemp] at h
  · simp only [hemp, hget, bind, Except.bind] at h
    unfold Env.sendRun Env.send at h
    by_cases hbr : (e.flags.get n).broken = true
    · simp [hbr] at h
    · simp [hbr] at h

theorem checkSchedule_no_keyError {s : State τ} {e : Env} {n : Nat} {slow : Bool} (hn : n ∈ AList.keys s.node2pending) :
    checkSchedule s e n slow ≠ .error .keyError := by
  intro h
  obtain ⟨book, hb⟩ : ∃ b, AList.lookup s.node2pending n = some b := by
    have := (AList.lookup_isSome_iff_mem_keys s.node2pending n).2 hn
    cases hl : AList.lookup s.node2pending n with
    | none => rw [hl] at this; cases this
    | some b => exact ⟨b, rfl⟩
  have hget : s.node2pending.get n = .ok book := AList.get_eq_ok.2 hb
  unfold checkSchedule at h
  by_cases hsd : e.flags.shuttingDown n = true
  · simp [hsd] at h
  · simp only [hsd] at h
    by_cases hp : s.pending.isEmpty = true
    · simp [hp] at h
    · simp only [hp] at h
      by_cases hz : s.node2pending.length = 0
      · simp [hz] at h
      · simp only [hz, hget, bind, Except.bind] at h
        by_cases hlt : book.length < max 2 (s.pending.length / s.node2pending.length / 4)
        · simp only [hlt, if_true] at h
          by_cases hslow : (slow && decide (book.length ≥ 2)) = true
          · simp [hslow] at h
          · simp only [hslow] at h
            cases hm : s.maxschedchunk with
            | none => simp [hm] at h
            | some msc =>
              simp only [hm] at h
              exact sendTests_no_keyError hn h
        · simp [hlt] at h

theorem checkAll_no_keyError (s : State τ) (e : Env) (ns : List Nat) (hns : ∀ n ∈ ns, n ∈ AList.keys s.node2pending) :
    checkAll s e ns ≠ .error .keyError := by
  induction ns generalizing s e with
  | nil => intro h; cases h
  | cons n t ih =>
    intro h
    simp only [checkAll] at h
    cases hc : checkSchedule s e n false with
    | error err =>
      rw [hc] at h
      simp only [bind, Except.bind] at h
      cases h
      exact checkSchedule_no_keyError (hns n (by simp)) hc
    | ok p =>
      rw [hc] at h
      simp only [bind, Except.bind] at h
      have f := checkSchedule_frame (show checkSchedule s e n false = .ok (p.1, p.2) from hc)
      exact ih p.1 p.2 (by intro m hm; rw [f.keys]; exact hns m (by simp [hm])) h

end Xdist.Load
