import XdistProofs.Props.C02
import XdistProofs.Contract.LoadRefines
/-!
  The "two queued tests" invariant of `LoadScheduling`, as a state invariant kept by every scheduler call
  (not just established by one `check_schedule`):

  `Q s e`: every node whose collection is registered is shutting down, or holds at least two tests, or the unassigned
  list is empty.
-/
namespace Xdist.Load
open Xdist

variable {τ : Type} [DecidableEq τ]

/-- the per-node condition -/
def Qn (s : State τ) (e : Env) (n : Nat) : Prop :=
  ∀ book, AList.lookup s.node2pending n = some book → e.flags.shuttingDown n = true ∨ 2 ≤ book.length ∨ s.pending = []

/-- what one `_send_tests` / `check_schedule` call may change -/
structure Frame (s : State τ) (e : Env) (n : Nat) (s' : State τ) (e' : Env) : Prop where
  static : s'.node2collection = s.node2collection ∧ s'.collection = s.collection ∧ s'.numnodes = s.numnodes ∧
    s'.maxschedchunk = s.maxschedchunk
  flags : ∀ m, e.flags.shuttingDown m = true → e'.flags.shuttingDown m = true
  pending : ∃ k, s'.pending = s.pending.drop k
  others : ∀ m, m ≠ n → AList.lookup s'.node2pending m = AList.lookup s.node2pending m
  keys : AList.keys s'.node2pending = AList.keys s.node2pending
  grows : ∀ book, AList.lookup s.node2pending n = some book →
    ∃ book', AList.lookup s'.node2pending n = some book' ∧ book.length ≤ book'.length

theorem Frame.refl (s : State τ) (e : Env) (n : Nat) : Frame s e n s e :=
  ⟨⟨rfl, rfl, rfl, rfl⟩, fun _ h => h, ⟨0, by simp⟩, fun _ _ => rfl, rfl, fun b hb => ⟨b, hb, Nat.le_refl _⟩⟩

theorem sendTests_frame {s s' : State τ} {e e' : Env} {n : Nat} {num : Int}
    (h : sendTests s e n num = .ok (s', e')) : Frame s e n s' e' := by
  unfold sendTests at h
  obtain ⟨k, hk1, hk2⟩ := slice_take_drop s.pending num
  simp only [hk1, hk2] at h
  by_cases hemp : (s.pending.take k).isEmpty = true
  · simp [hemp] at h
    obtain ⟨rfl, rfl⟩ := h
    exact Frame.refl _ _ _
  · simp only [hemp] at h
    cases hb : s.node2pending.get n with
    | error err => simp [hb, bind, Except.bind] at h
    | ok book =>
      have hl := AList.get_eq_ok.1 hb
      simp only [hb, bind, Except.bind] at h
      unfold Env.sendRun Env.send at h
      by_cases hbr : (e.flags.get n).broken = true
      all_goals
        simp [hbr] at h
        obtain ⟨rfl, rfl⟩ := h
        refine ⟨⟨rfl, rfl, rfl, rfl⟩, fun _ hm => by simpa [Env.emit] using hm, ⟨k, rfl⟩, ?_, ?_, ?_⟩
        · intro m hm
          exact AList.lookup_set_other _ _ _ _ hm
        · exact AList.keys_set_of_mem _ _ _ (by rw [hl]; rfl)
        · intro b hb'
          rw [hl] at hb'
          cases hb'
          exact ⟨_, AList.lookup_set_same _ _ _, by simp⟩

theorem shutdown_frame (s : State τ) (e : Env) (n m : Nat) : Frame s e n s (e.shutdown m) :=
  ⟨⟨rfl, rfl, rfl, rfl⟩, fun k h => Ctl.shutdown_flag_mono e m k h, ⟨0, by simp⟩, fun _ _ => rfl, rfl,
    fun b hb => ⟨b, hb, Nat.le_refl _⟩⟩

theorem checkSchedule_frame {s s' : State τ} {e e' : Env} {n : Nat} {slow : Bool}
    (h : checkSchedule s e n slow = .ok (s', e')) : Frame s e n s' e' := by
  unfold checkSchedule at h
  by_cases hsd : e.flags.shuttingDown n = true
  · simp [hsd] at h; obtain ⟨rfl, rfl⟩ := h; exact Frame.refl _ _ _
  · simp only [hsd] at h
    by_cases hp : s.pending.isEmpty = true
    · simp [hp] at h; obtain ⟨rfl, rfl⟩ := h; exact shutdown_frame _ _ _ _
    · simp only [hp] at h
      by_cases hz : s.node2pending.length = 0
      · simp [hz] at h
      · simp only [hz] at h
        cases hb : s.node2pending.get n with
        | error err => simp [hb, bind, Except.bind] at h
        | ok book =>
          simp only [hb, bind, Except.bind] at h
          by_cases hlt : book.length < max 2 (s.pending.length / s.node2pending.length / 4)
          · simp only [hlt, if_true] at h
            by_cases hslow : (slow && decide (book.length ≥ 2)) = true
            · simp only [hslow, if_true] at h
              simp at h; obtain ⟨rfl, rfl⟩ := h; exact Frame.refl _ _ _
            · simp only [hslow] at h
              cases hm : s.maxschedchunk with
              | none => simp [hm] at h
              | some msc =>
                simp only [hm] at h
                exact sendTests_frame h
          · simp [hlt] at h; obtain ⟨rfl, rfl⟩ := h; exact Frame.refl _ _ _

/-- a frame step keeps the per-node condition of every *other* node -/
theorem Frame.keeps {s s' : State τ} {e e' : Env} {n : Nat} (f : Frame s e n s' e') {m : Nat} (hm : m ≠ n)
    (hq : Qn s e m) : Qn s' e' m := by
  intro book hb
  rw [f.others m hm] at hb
  rcases hq book hb with h | h | h
  · exact Or.inl (f.flags m h)
  · exact Or.inr (Or.inl h)
  · obtain ⟨k, hk⟩ := f.pending
    exact Or.inr (Or.inr (by rw [hk, h]; simp))

/-- `check_schedule(n)` establishes the condition for `n` and keeps it for everybody else -/
theorem checkSchedule_Q {s s' : State τ} {e e' : Env} {n : Nat} {slow : Bool}
    (h : checkSchedule s e n slow = .ok (s', e')) :
    Qn s' e' n ∧ ∀ m, Qn s e m → m ≠ n → Qn s' e' m := by
  have f := checkSchedule_frame h
  refine ⟨?_, fun m hq hm => f.keeps hm hq⟩
  intro book' hb'
  by_cases hsd : e.flags.shuttingDown n = true
  · exact Or.inl (f.flags n hsd)
  · have hsd' : e.flags.shuttingDown n = false := by cases hh : e.flags.shuttingDown n <;> simp_all
    -- n has a book before as well (keys are unchanged)
    have hk : n ∈ AList.keys s.node2pending := by
      rw [← f.keys]; exact (AList.lookup_isSome_iff_mem_keys _ _).1 (by rw [hb']; rfl)
    obtain ⟨book, hb⟩ : ∃ b, AList.lookup s.node2pending n = some b := by
      have := (AList.lookup_isSome_iff_mem_keys s.node2pending n).2 hk
      cases hl : AList.lookup s.node2pending n with
      | none => rw [hl] at this; cases this
      | some b => exact ⟨b, rfl⟩
    rcases Props.C02.C02_load_check_leaves_two h hsd' hb with ⟨_, he⟩ | ⟨b2, hb2, hq⟩
    · left; rw [he]; exact Ctl.shutdown_flag_self e n
    · rw [hb2] at hb'; cases hb'
      exact Or.inr hq

theorem checkAll_Q {s s' : State τ} {e e' : Env} {ns : List Nat} (h : checkAll s e ns = .ok (s', e')) :
    (∀ n ∈ ns, Qn s' e' n) ∧ (∀ m, Qn s e m → Qn s' e' m) ∧
    (∃ k, s'.pending = s.pending.drop k) ∧ s'.collection = s.collection ∧ s'.node2collection = s.node2collection ∧
    AList.keys s'.node2pending = AList.keys s.node2pending ∧ (∀ m, e.flags.shuttingDown m = true → e'.flags.shuttingDown m = true) := by
  induction ns generalizing s e with
  | nil =>
    simp only [checkAll, Except.ok.injEq, Prod.mk.injEq] at h
    obtain ⟨rfl, rfl⟩ := h
    exact ⟨by simp, fun _ hq => hq, ⟨0, by simp⟩, rfl, rfl, rfl, fun _ hm => hm⟩
  | cons n t ih =>
    simp only [checkAll] at h
    obtain ⟨r, hr, h2⟩ := bind_ok.1 h
    obtain ⟨s1, e1⟩ := r
    have f := checkSchedule_frame hr
    obtain ⟨q1, q2⟩ := checkSchedule_Q hr
    obtain ⟨i1, i2, ⟨k2, i3⟩, i4, i5, i6, i7⟩ := ih h2
    obtain ⟨k1, hk1⟩ := f.pending
    refine ⟨?_, ?_, ⟨k1 + k2, by rw [i3, hk1, List.drop_drop]⟩, by rw [i4, f.static.2.1], by rw [i5, f.static.1],
      by rw [i6, f.keys], fun m hm => i7 m (f.flags m hm)⟩
    · intro m hm
      rcases List.mem_cons.1 hm with rfl | hm'
      · exact i2 _ q1
      · exact i1 m hm'
    · intro m hq
      by_cases hmn : m = n
      · subst hmn; exact i2 _ q1
      · exact i2 _ (q2 m hq hmn)

end Xdist.Load

namespace Xdist.Load
open Xdist

variable {τ : Type} [DecidableEq τ]

/-! ### monotone steps -/

/-- what any sequence of sends and shutdown signals may change -/
structure Mono (s : State τ) (e : Env) (s' : State τ) (e' : Env) : Prop where
  static : s'.node2collection = s.node2collection ∧ s'.collection = s.collection ∧ s'.numnodes = s.numnodes
  flags : ∀ m, e.flags.shuttingDown m = true → e'.flags.shuttingDown m = true
  pending : ∃ k, s'.pending = s.pending.drop k
  keys : AList.keys s'.node2pending = AList.keys s.node2pending
  grows : ∀ m book, AList.lookup s.node2pending m = some book →
    ∃ book', AList.lookup s'.node2pending m = some book' ∧ book.length ≤ book'.length

theorem Mono.refl (s : State τ) (e : Env) : Mono s e s e :=
  ⟨⟨rfl, rfl, rfl⟩, fun _ h => h, ⟨0, by simp⟩, rfl, fun _ b hb => ⟨b, hb, Nat.le_refl _⟩⟩

theorem Mono.trans {s1 s2 s3 : State τ} {e1 e2 e3 : Env} (a : Mono s1 e1 s2 e2) (b : Mono s2 e2 s3 e3) : Mono s1 e1 s3 e3 := by
  obtain ⟨k1, h1⟩ := a.pending
  obtain ⟨k2, h2⟩ := b.pending
  refine ⟨⟨by rw [b.static.1, a.static.1], by rw [b.static.2.1, a.static.2.1], by rw [b.static.2.2, a.static.2.2]⟩,
    fun m hm => b.flags m (a.flags m hm), ⟨k1 + k2, by rw [h2, h1, List.drop_drop]⟩, by rw [b.keys, a.keys], ?_⟩
  intro m book hb
  obtain ⟨b1, hb1, l1⟩ := a.grows m book hb
  obtain ⟨b2, hb2, l2⟩ := b.grows m b1 hb1
  exact ⟨b2, hb2, Nat.le_trans l1 l2⟩

theorem Frame.mono {s s' : State τ} {e e' : Env} {n : Nat} (f : Frame s e n s' e') : Mono s e s' e' := by
  refine ⟨⟨f.static.1, f.static.2.1, f.static.2.2.1⟩, f.flags, f.pending, f.keys, ?_⟩
  intro m book hb
  by_cases hm : m = n
  · subst hm; exact f.grows book hb
  · exact ⟨book, by rw [f.others m hm]; exact hb, Nat.le_refl _⟩

theorem shutdownAll_flag_mono (e : Env) (ns : List Nat) (m : Nat) (h : e.flags.shuttingDown m = true) :
    (e.shutdownAll ns).flags.shuttingDown m = true := by
  induction ns generalizing e with
  | nil => exact h
  | cons n t ih => simp only [Env.shutdownAll]; exact ih _ (Ctl.shutdown_flag_mono e n m h)

theorem Qn_of_pending_nil {s : State τ} {e : Env} (h : s.pending = []) (n : Nat) : Qn s e n :=
  fun _ _ => Or.inr (Or.inr h)

theorem Qn_of_two {s : State τ} {e : Env} {n : Nat} {b : List Nat} (hb : AList.lookup s.node2pending n = some b)
    (h2 : 2 ≤ b.length) : Qn s e n := by
  intro book hbook
  rw [hb] at hbook; cases hbook
  exact Or.inr (Or.inl h2)

theorem Qn_of_not_key {s : State τ} {e : Env} {n : Nat} (h : n ∉ AList.keys s.node2pending) : Qn s e n := by
  intro book hb
  exact absurd ((AList.lookup_isSome_iff_mem_keys _ _).1 (by rw [hb]; rfl)) h

/-- only the flags of the environment matter -/
theorem Qn_env {s : State τ} {e e' : Env} {n : Nat} (hf : ∀ m, e.flags.shuttingDown m = true → e'.flags.shuttingDown m = true)
    (h : Qn s e n) : Qn s e' n := by
  intro book hb
  rcases h book hb with h | h | h
  · exact Or.inl (hf n h)
  · exact Or.inr (Or.inl h)
  · exact Or.inr (Or.inr h)

/-- re-examining every node establishes the condition everywhere -/
theorem checkAll_keys_Q {s s' : State τ} {e e' : Env} (h : checkAll s e (AList.keys s.node2pending) = .ok (s', e')) :
    (∀ n, Qn s' e' n) ∧ Mono s e s' e' := by
  obtain ⟨i1, i2, i3, i4, i5, i6, i7⟩ := checkAll_Q h
  refine ⟨?_, ?_⟩
  · intro n
    by_cases hn : n ∈ AList.keys s.node2pending
    · exact i1 n hn
    · exact Qn_of_not_key (by rw [i6]; exact hn)
  · exact checkAll_mono h
where
  checkAll_mono {s s' : State τ} {e e' : Env} {ns : List Nat} (h : checkAll s e ns = .ok (s', e')) : Mono s e s' e' := by
    induction ns generalizing s e with
    | nil =>
      simp only [checkAll, Except.ok.injEq, Prod.mk.injEq] at h
      obtain ⟨rfl, rfl⟩ := h
      exact Mono.refl _ _
    | cons n t ih =>
      simp only [checkAll] at h
      obtain ⟨r, hr, h2⟩ := bind_ok.1 h
      exact (checkSchedule_frame hr).mono.trans (ih h2)

/-! ### the initial distribution -/

theorem sendTests_pos {s s' : State τ} {e e' : Env} {n c : Nat} (hc : 0 < c) (hlen : c ≤ s.pending.length)
    (h : sendTests s e n (c : Int) = .ok (s', e')) :
    s'.pending = s.pending.drop c ∧ ∃ b, AList.lookup s'.node2pending n = some b ∧ c ≤ b.length := by
  unfold sendTests at h
  have h1 : PyList.sliceTo s.pending (c : Int) = s.pending.take c := by unfold PyList.sliceTo; simp
  have h2 : PyList.sliceFrom s.pending (c : Int) = s.pending.drop c := by unfold PyList.sliceFrom; simp
  simp only [h1, h2] at h
  have hne : (s.pending.take c).isEmpty = false := by
    cases hp : s.pending with
    | nil => rw [hp] at hlen; simp at hlen; omega
    | cons a t => cases c with
      | zero => omega
      | succ k => simp
  simp only [hne, Bool.false_eq_true, ↓reduceIte] at h
  cases hb : s.node2pending.get n with
  | error err => simp [hb, bind, Except.bind] at h
  | ok book =>
    simp only [hb, bind, Except.bind] at h
    unfold Env.sendRun Env.send at h
    by_cases hbr : (e.flags.get n).broken = true
    all_goals
      simp [hbr] at h
      obtain ⟨rfl, rfl⟩ := h
      exact ⟨rfl, _, AList.lookup_set_same _ _ _, by simp; omega⟩

theorem sendEach_Q {c : Nat} (hc : 2 ≤ c) (ns : List Nat) {s s' : State τ} {e e' : Env}
    (hlen : ns.length * c ≤ s.pending.length) (h : sendEach s e (c : Int) ns = .ok (s', e')) :
    (∀ n ∈ ns, ∃ b, AList.lookup s'.node2pending n = some b ∧ 2 ≤ b.length) ∧ Mono s e s' e' := by
  induction ns generalizing s e with
  | nil =>
    simp only [sendEach, Except.ok.injEq, Prod.mk.injEq] at h
    obtain ⟨rfl, rfl⟩ := h
    exact ⟨by simp, Mono.refl _ _⟩
  | cons n t ih =>
    simp only [sendEach] at h
    obtain ⟨r, hr, h2⟩ := bind_ok.1 h
    obtain ⟨s1, e1⟩ := r
    have hl : c ≤ s.pending.length := by
      simp only [List.length_cons, Nat.add_mul, Nat.one_mul] at hlen; omega
    obtain ⟨p1, b1, hb1, l1⟩ := sendTests_pos (by omega) hl hr
    have f := sendTests_frame hr
    have hlen1 : t.length * c ≤ s1.pending.length := by
      rw [p1, List.length_drop]
      simp only [List.length_cons, Nat.add_mul, Nat.one_mul] at hlen; omega
    obtain ⟨i1, i2⟩ := ih hlen1 h2
    refine ⟨?_, f.mono.trans i2⟩
    intro m hm
    rcases List.mem_cons.1 hm with rfl | hm'
    · obtain ⟨b2, hb2, l2⟩ := i2.grows _ b1 hb1
      exact ⟨b2, hb2, by omega⟩
    · exact i1 m hm'

theorem sendTests_one {s s' : State τ} {e e' : Env} {n : Nat} (h : sendTests s e n 1 = .ok (s', e')) :
    s'.pending = s.pending.drop 1 := by
  unfold sendTests at h
  have h1 : PyList.sliceTo s.pending (1 : Int) = s.pending.take 1 := by unfold PyList.sliceTo; simp
  have h2 : PyList.sliceFrom s.pending (1 : Int) = s.pending.drop 1 := by unfold PyList.sliceFrom; simp
  simp only [h1, h2] at h
  by_cases hemp : (s.pending.take 1).isEmpty = true
  · simp only [hemp, ↓reduceIte, Except.ok.injEq, Prod.mk.injEq] at h
    obtain ⟨rfl, rfl⟩ := h
    cases hp : s.pending with
    | nil => rfl
    | cons a t => rw [hp] at hemp; simp at hemp
  · simp only [hemp] at h
    cases hb : s.node2pending.get n with
    | error err => simp [hb, bind, Except.bind] at h
    | ok book =>
      simp only [hb, bind, Except.bind] at h
      unfold Env.sendRun Env.send at h
      by_cases hbr : (e.flags.get n).broken = true
      all_goals
        simp [hbr] at h
        obtain ⟨rfl, rfl⟩ := h
        simp

theorem roundRobin_exhausts (ns : List Nat) (k : Nat) {s s' : State τ} {e e' : Env} {i : Nat}
    (hk : s.pending.length ≤ k) (h : roundRobin ns s e k i = .ok (s', e')) : s'.pending = [] ∧ Mono s e s' e' := by
  induction k generalizing s e i with
  | zero =>
    simp only [roundRobin, Except.ok.injEq, Prod.mk.injEq] at h
    obtain ⟨rfl, rfl⟩ := h
    exact ⟨List.length_eq_zero_iff.1 (by omega), Mono.refl _ _⟩
  | succ k ih =>
    simp only [roundRobin] at h
    split at h
    · simp at h
    · rename_i n hn
      obtain ⟨r, hr, h2⟩ := bind_ok.1 h
      obtain ⟨s1, e1⟩ := r
      have p1 := sendTests_one hr
      have : s1.pending.length ≤ k := by rw [p1, List.length_drop]; omega
      obtain ⟨i1, i2⟩ := ih this h2
      exact ⟨i1, (sendTests_frame hr).mono.trans i2⟩

theorem keys_length {κ ν : Type} (d : AList κ ν) : (AList.keys d).length = d.length := by
  simp [AList.keys]

/-- after the initial distribution every node holds two tests, or nothing is left to hand out -/
theorem initialSend_Q {s s' : State τ} {e e' : Env} {msc : Int}
    (h : initialSend s e s.pending.length msc = .ok (s', e')) : (∀ n, Qn s' e' n) ∧ Mono s e s' e' := by
  unfold initialSend at h
  obtain ⟨r, hr, h2⟩ := bind_ok.1 h
  obtain ⟨s1, e1⟩ := r
  have key : (∀ n, Qn s1 e1 n) ∧ Mono s e s1 e1 := by
    unfold initialDistribute at hr
    simp only at hr
    split at hr
    · obtain ⟨i1, i2⟩ := roundRobin_exhausts _ _ (Nat.le_refl _) hr
      exact ⟨fun n => Qn_of_pending_nil i1 n, i2⟩
    · rename_i hge
      split at hr
      · simp at hr
      · rename_i hz
        have hkl : (nodes s).length = s.node2pending.length := keys_length _
        -- the chunk as a natural number
        obtain ⟨c, hc, hc2, hcle⟩ : ∃ c : Nat, (max (min ((s.pending.length / s.node2pending.length / 4 : Nat) : Int) msc) 2 : Int) = (c : Int)
            ∧ 2 ≤ c ∧ c ≤ max (s.pending.length / s.node2pending.length / 4) 2 := by
          refine ⟨(max (min ((s.pending.length / s.node2pending.length / 4 : Nat) : Int) msc) 2 : Int).toNat, ?_, ?_, ?_⟩ <;> omega
        rw [hc] at hr
        have hmul : s.node2pending.length * (s.pending.length / s.node2pending.length) ≤ s.pending.length :=
          Nat.mul_div_le _ _
        have hq : s.pending.length / s.node2pending.length / 4 ≤ s.pending.length / s.node2pending.length :=
          Nat.div_le_self _ _
        have hlen : (nodes s).length * c ≤ s.pending.length := by
          rw [hkl]
          rw [hkl] at hge
          have h1 : s.node2pending.length * c ≤ s.node2pending.length * max (s.pending.length / s.node2pending.length / 4) 2 :=
            Nat.mul_le_mul_left _ hcle
          have h2 : s.node2pending.length * max (s.pending.length / s.node2pending.length / 4) 2 ≤ s.pending.length := by
            rcases Nat.le_total (s.pending.length / s.node2pending.length / 4) 2 with hh | hh
            · rw [Nat.max_eq_right hh]; omega
            · rw [Nat.max_eq_left hh]
              exact Nat.le_trans (Nat.mul_le_mul_left _ hq) hmul
          exact Nat.le_trans h1 h2
        obtain ⟨i1, i2⟩ := sendEach_Q hc2 (nodes s) hlen hr
        refine ⟨?_, i2⟩
        intro n
        by_cases hn : n ∈ AList.keys s.node2pending
        · obtain ⟨b, hb, l⟩ := i1 n hn
          exact Qn_of_two hb l
        · exact Qn_of_not_key (by rw [i2.keys]; exact hn)
  split at h2
  · simp only [Except.ok.injEq, Prod.mk.injEq] at h2
    obtain ⟨rfl, rfl⟩ := h2
    refine ⟨fun n => Qn_env (fun m hm => shutdownAll_flag_mono _ _ m hm) (key.1 n), key.2.trans ?_⟩
    exact ⟨⟨rfl, rfl, rfl⟩, fun m hm => shutdownAll_flag_mono _ _ m hm, ⟨0, by simp⟩, rfl, fun _ b hb => ⟨b, hb, Nat.le_refl _⟩⟩
  · simp only [Except.ok.injEq, Prod.mk.injEq] at h2
    obtain ⟨rfl, rfl⟩ := h2
    exact key

end Xdist.Load

namespace Xdist.Load
open Xdist

variable {τ : Type} [DecidableEq τ]

/-! ### the state invariant -/

/-- **Every worker whose collection is registered is shutting down, or holds at least two queued tests, or nothing is left
    to hand out** — together with the bookkeeping facts the proof needs. -/
structure QInv (s : State τ) (e : Env) : Prop where
  q : ∀ n ∈ AList.keys s.node2collection, Qn s e n
  nocol : s.collection = none → s.pending = []
  compl : s.collection ≠ none → collectionIsCompleted s = true
  nodup : (AList.keys s.node2pending).Nodup

/-- the side conditions: a worker reporting ready is a new one; `add_node_collection` and `schedule` occur as the pair of
    `worker_collectionfinish` only; the load scheduler has no steal answers -/
def QOk (s : State τ) : SOp τ → Prop
  | .addNode n => n ∉ AList.keys s.node2collection
  | .addNodeCollection _ _ => False
  | .schedule => False
  | _ => True

theorem QInv.ofAll {s : State τ} {e : Env} (h : ∀ n, Qn s e n) (h1 : s.collection = none → s.pending = [])
    (h2 : s.collection ≠ none → collectionIsCompleted s = true) (h3 : (AList.keys s.node2pending).Nodup) : QInv s e :=
  ⟨fun n _ => h n, h1, h2, h3⟩

theorem completed_static {s s' : State τ} (h1 : s'.node2collection = s.node2collection) (h2 : s'.numnodes = s.numnodes) :
    collectionIsCompleted s' = collectionIsCompleted s := by
  unfold collectionIsCompleted; rw [h1, h2]

theorem Mono.inv {s s' : State τ} {e e' : Env} (m : Mono s e s' e') (hall : ∀ n, Qn s' e' n) (hs : s.collection ≠ none)
    (hc : collectionIsCompleted s = true) (hn : (AList.keys s.node2pending).Nodup) : QInv s' e' := by
  refine QInv.ofAll hall ?_ ?_ (by rw [m.keys]; exact hn)
  · intro h; rw [m.static.2.1] at h; exact absurd h hs
  · intro _; rw [completed_static m.static.1 m.static.2.2]; exact hc

theorem addNode_inv {s s' : State τ} {e : Env} {n : Nat} (hi : QInv s e) (hok : n ∉ AList.keys s.node2collection)
    (h : addNode s n = .ok s') : QInv s' e := by
  unfold addNode at h
  split at h
  · simp at h
  · rename_i hc
    simp only [Except.ok.injEq] at h; subst h
    have hl : AList.lookup s.node2pending n = none := by
      simp only [AList.contains] at hc
      cases hh : AList.lookup s.node2pending n with
      | none => rfl
      | some b => rw [hh] at hc; simp at hc
    refine ⟨?_, hi.nocol, hi.compl, ?_⟩
    · intro m hm book hb
      have hmn : m ≠ n := fun hh => hok (hh ▸ hm)
      simp only at hb
      rw [AList.lookup_set_other _ _ _ _ hmn] at hb
      exact hi.q m hm book hb
    · simp only
      rw [AList.keys_set_of_not_mem _ _ _ hl]
      refine List.nodup_append.2 ⟨hi.nodup, by simp, ?_⟩
      intro a ha b hb
      simp only [List.mem_singleton] at hb
      subst hb
      intro hab; subst hab
      have := (AList.lookup_isSome_iff_mem_keys s.node2pending a).2 ha
      rw [hl] at this; cases this

theorem initialSend_Q' {s s' : State τ} {e e' : Env} {msc : Int} {k : Nat} (hk : k = s.pending.length)
    (h : initialSend s e k msc = .ok (s', e')) : (∀ n, Qn s' e' n) ∧ Mono s e s' e' := by
  subst hk; exact initialSend_Q h

theorem length_le_set {κ ν : Type} [DecidableEq κ] (d : AList κ ν) (x : κ) (v : ν) : d.length ≤ (AList.set d x v).length := by
  induction d with
  | nil => simp [AList.set]
  | cons p t ih =>
    simp only [AList.set]
    split
    · simp
    · simp only [List.length_cons]; omega

theorem scheduleFirst_inv {s s' : State τ} {e e' : Env} {first : Nat} {col : List τ} {rest : AList Nat (List τ)}
    (hi : QInv s e) (hn : s.collection = none) (hc : collectionIsCompleted s = true)
    (h : scheduleFirst s e first col rest = .ok (s', e')) : QInv s' e' := by
  unfold scheduleFirst at h
  simp only at h
  split at h
  · simp only [Except.ok.injEq, Prod.mk.injEq] at h
    obtain ⟨rfl, rfl⟩ := h
    exact ⟨fun n hn' => Qn_env (fun _ hm => hm) (hi.q n hn'), hi.nocol, hi.compl, hi.nodup⟩
  · split at h
    · rename_i hemp
      simp only [Except.ok.injEq, Prod.mk.injEq] at h
      obtain ⟨rfl, rfl⟩ := h
      have : col = [] := List.isEmpty_iff.1 hemp
      subst this
      exact QInv.ofAll (fun n => Qn_of_pending_nil (by simp) n) (by simp) (fun _ => hc) hi.nodup
    · obtain ⟨i1, i2⟩ := initialSend_Q' (by simp) h
      exact i2.inv i1 (by simp) hc hi.nodup

theorem schedule_inv {s s' : State τ} {e e' : Env} (hi : QInv s e) (hc : collectionIsCompleted s = true)
    (h : schedule s e = .ok (s', e')) : QInv s' e' := by
  unfold schedule at h
  simp only [hc, Bool.not_true, Bool.false_eq_true, ↓reduceIte] at h
  split at h
  · rename_i col hcol
    obtain ⟨i1, i2⟩ := checkAll_keys_Q h
    exact i2.inv i1 (by rw [hcol]; simp) hc hi.nodup
  · rename_i hcol
    split at h
    · simp at h
    · exact scheduleFirst_inv hi hcol hc h

/-- the pair of `worker_collectionfinish` -/
theorem collect_inv {s s1 : State τ} {e : Env} {n : Nat} {c : List τ} (hi : QInv s e)
    (h : addNodeCollection s n c = .ok s1) :
    (collectionIsCompleted s1 = false → QInv s1 e) ∧
    (∀ {s2 e2}, collectionIsCompleted s1 = true → schedule s1 e = .ok (s2, e2) → QInv s2 e2) := by
  -- shape of s1: unchanged, or the collection registered
  have shape : s1 = s ∨ s1 = { s with node2collection := s.node2collection.set n c } := by
    unfold addNodeCollection at h
    split at h
    · simp at h
    · split at h
      · split at h
        · simp at h
        · split at h
          · simp at h
          · split at h
            · simp only [Except.ok.injEq] at h; exact Or.inl h.symm
            · simp only [Except.ok.injEq] at h; exact Or.inr h.symm
      · simp only [Except.ok.injEq] at h; exact Or.inr h.symm
  have mono : collectionIsCompleted s = true → collectionIsCompleted s1 = true := by
    rcases shape with rfl | rfl
    · exact id
    · unfold collectionIsCompleted
      simp only [decide_eq_true_eq]
      intro hh
      exact Nat.le_trans hh (length_le_set _ _ _)
  constructor
  · intro hnc
    have hcol : s.collection = none := by
      cases hh : s.collection with
      | none => rfl
      | some col =>
        have := mono (hi.compl (by rw [hh]; simp))
        rw [this] at hnc; cases hnc
    have hp := hi.nocol hcol
    rcases shape with rfl | rfl
    · exact hi
    · exact QInv.ofAll (fun m => Qn_of_pending_nil hp m) (fun _ => hp) (fun hh => absurd hcol hh) hi.nodup
  · intro s2 e2 hc hs
    -- before `schedule()`: the invariant up to the newly registered node, which is all that `schedule_inv` needs
    by_cases hcol : s.collection = none
    · have hp := hi.nocol hcol
      have hi1 : QInv s1 e := by
        rcases shape with rfl | rfl
        · exact hi
        · exact QInv.ofAll (fun m => Qn_of_pending_nil hp m) (fun _ => hp) (fun hh => absurd hcol hh) hi.nodup
      exact schedule_inv hi1 hc hs
    · -- a late node: `schedule()` re-examines every node
      have hcol1 : s1.collection ≠ none := by rcases shape with rfl | rfl <;> exact hcol
      have hnd1 : (AList.keys s1.node2pending).Nodup := by rcases shape with rfl | rfl <;> exact hi.nodup
      unfold schedule at hs
      simp only [hc, Bool.not_true, Bool.false_eq_true, ↓reduceIte] at hs
      split at hs
      · obtain ⟨i1, i2⟩ := checkAll_keys_Q hs
        exact i2.inv i1 hcol1 hc hnd1
      · rename_i hh; exact absurd hh hcol1

theorem markComplete_inv {s s' : State τ} {e e' : Env} {n i : Nat} {slow : Bool} (hi : QInv s e)
    (h : markComplete s e n i slow = .ok (s', e')) : QInv s' e' := by
  unfold markComplete at h
  obtain ⟨book, hb, h1⟩ := bind_ok.1 h
  obtain ⟨book', _, h2⟩ := bind_ok.1 h1
  have hl := AList.get_eq_ok.1 hb
  have f := checkSchedule_frame h2
  obtain ⟨q1, q2⟩ := checkSchedule_Q h2
  have hk : AList.keys (s.node2pending.set n book') = AList.keys s.node2pending :=
    AList.keys_set_of_mem _ _ _ (by rw [hl]; rfl)
  refine ⟨?_, ?_, ?_, ?_⟩
  · intro m hm
    rw [f.static.1] at hm
    by_cases hmn : m = n
    · subst hmn; exact q1
    · refine q2 m ?_ hmn
      intro b hb'
      simp only at hb'
      rw [AList.lookup_set_other _ _ _ _ hmn] at hb'
      exact hi.q m hm b hb'
  · intro hc
    rw [f.static.2.1] at hc
    obtain ⟨k, hk'⟩ := f.pending
    rw [hk']; simp only; rw [hi.nocol hc]; simp
  · intro hc
    rw [f.static.2.1] at hc
    rw [completed_static f.static.1 f.static.2.2.1]
    exact hi.compl hc
  · rw [f.keys]; simp only; rw [hk]; exact hi.nodup

theorem markPending_inv {s s' : State τ} {e e' : Env} {t : τ} (hi : QInv s e)
    (h : markPending s e t = .ok (s', e')) : QInv s' e' := by
  unfold markPending at h
  split at h
  · simp at h
  · rename_i col hcol
    obtain ⟨idx, _, h1⟩ := bind_ok.1 h
    obtain ⟨i1, i2⟩ := checkAll_keys_Q (s := { s with pending := idx :: s.pending }) h1
    exact i2.inv i1 (by simp [hcol]) (hi.compl (by simp [hcol])) hi.nodup

theorem removeNode_inv {s s' : State τ} {e e' : Env} {n : Nat} {r : Option τ} (hi : QInv s e)
    (h : removeNode s e n = .ok (s', e', r)) : QInv s' e' := by
  unfold removeNode at h
  obtain ⟨⟨book, n2p⟩, hp, h1⟩ := bind_ok.1 h
  obtain ⟨hl, rfl⟩ := AList.pop_eq_ok.1 hp
  simp only at h1
  have hnd : (AList.keys (AList.erase s.node2pending n)).Nodup := AList.nodup_keys_erase _ _ hi.nodup
  split at h1
  · simp only [Except.ok.injEq, Prod.mk.injEq] at h1
    obtain ⟨rfl, rfl, _⟩ := h1
    refine ⟨?_, hi.nocol, hi.compl, hnd⟩
    intro m hm b hb
    simp only at hb
    by_cases hmn : m = n
    · subst hmn
      rw [AList.lookup_erase_same _ _ hi.nodup] at hb; cases hb
    · rw [AList.lookup_erase_other _ _ _ hmn] at hb
      exact hi.q m hm b hb
  · rename_i i rest
    split at h1
    · simp at h1
    · rename_i col hcol
      split at h1
      · simp at h1
      · obtain ⟨⟨s3, e3⟩, hca, h2⟩ := bind_ok.1 h1
        simp only [Except.ok.injEq, Prod.mk.injEq] at h2
        obtain ⟨rfl, rfl, _⟩ := h2
        obtain ⟨i1, i2⟩ := checkAll_keys_Q
          (s := { s with node2pending := AList.erase s.node2pending n, pending := s.pending ++ rest }) hca
        exact i2.inv i1 (by simp [hcol]) (hi.compl (by simp [hcol])) hnd

theorem shutdown_inv {s : State τ} {e : Env} (n : Nat) (hi : QInv s e) : QInv s (e.shutdown n) :=
  ⟨fun m hm => Qn_env (fun k hk => Ctl.shutdown_flag_mono e n k hk) (hi.q m hm), hi.nocol, hi.compl, hi.nodup⟩

theorem init_inv (k : Nat) (msc : Option Int) : QInv (init (τ := τ) k msc) ({} : Env) :=
  ⟨by simp [init, AList.keys], fun _ => rfl, fun h => absurd rfl h, by simp [init, AList.keys]⟩

end Xdist.Load
