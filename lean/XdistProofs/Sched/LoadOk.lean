import XdistProofs.Contract.LoadRefines
/-!
  `LoadScheduling` does not raise: under the preconditions the controller establishes (the node is registered, the index is in
  its book, `maxschedchunk` has been fixed once tests exist) every scheduler function returns.  Used for C17 at the level of the
  whole system: handling an event never ends in an internal error.
-/
namespace Xdist.Load
open Xdist Xdist.Contract

variable {τ : Type} [DecidableEq τ]

/-- `maxschedchunk` is set whenever there is something to hand out -/
def MscOk (s : State τ) : Prop := s.pending ≠ [] → s.maxschedchunk.isSome = true

theorem lookup_of_mem_keys {d : AList Nat (List Nat)} {n : Nat} (h : n ∈ AList.keys d) : ∃ b, AList.lookup d n = some b := by
  have := (AList.lookup_isSome_iff_mem_keys d n).2 h
  cases hl : AList.lookup d n with
  | none => rw [hl] at this; cases this
  | some b => exact ⟨b, rfl⟩

theorem sendTests_total (s : State τ) (e : Env) {n : Nat} (num : Int) (hn : n ∈ AList.keys s.node2pending) :
    ∃ r, sendTests s e n num = .ok r := by
  obtain ⟨book, hb⟩ := lookup_of_mem_keys hn
  have hget : s.node2pending.get n = .ok book := AList.get_eq_ok.2 hb
  unfold sendTests
  simp only
  split
  · exact ⟨_, rfl⟩
  · cases hbr : (e.flags.get n).broken <;>
      simp [hget, bind, Except.bind, Env.sendRun, Env.send, hbr]

/-- what `_send_tests` leaves alone -/
theorem sendTests_keep {s s' : State τ} {e e' : Env} {n : Nat} {num : Int} (h : sendTests s e n num = .ok (s', e')) :
    AList.keys s'.node2pending = AList.keys s.node2pending ∧ s'.maxschedchunk = s.maxschedchunk ∧
      s'.collection = s.collection := by
  unfold sendTests at h
  simp only at h
  split at h
  · simp only [Except.ok.injEq, Prod.mk.injEq] at h; obtain ⟨rfl, _⟩ := h; exact ⟨rfl, rfl, rfl⟩
  · obtain ⟨book, hb, h⟩ := bind_ok.1 h
    obtain ⟨e1, _, h⟩ := bind_ok.1 h
    simp only [Except.ok.injEq, Prod.mk.injEq] at h
    obtain ⟨rfl, _⟩ := h
    refine ⟨?_, rfl, rfl⟩
    exact AList.keys_set_of_mem _ _ _ (by rw [AList.get_eq_ok.1 hb]; rfl)

theorem checkSchedule_total (s : State τ) (e : Env) {n : Nat} (slow : Bool) (hn : n ∈ AList.keys s.node2pending)
    (hm : MscOk s) : ∃ r, checkSchedule s e n slow = .ok r := by
  obtain ⟨book, hb⟩ := lookup_of_mem_keys hn
  have hget : s.node2pending.get n = .ok book := AList.get_eq_ok.2 hb
  unfold checkSchedule
  split
  · exact ⟨_, rfl⟩
  · split
    · rename_i hp
      have hpne : s.pending ≠ [] := by
        intro hh; rw [hh] at hp; simp at hp
      have hlen : s.node2pending.length ≠ 0 := by
        intro hz
        have : s.node2pending = [] := List.length_eq_zero_iff.1 hz
        rw [this] at hn; simp [AList.keys] at hn
      simp only [hlen, ↓reduceIte, hget, bind, Except.bind]
      split
      · split
        · exact ⟨_, rfl⟩
        · obtain ⟨m, hmm⟩ := Option.isSome_iff_exists.1 (hm hpne)
          simp only [hmm]
          exact sendTests_total s e _ hn
      · exact ⟨_, rfl⟩
    · exact ⟨_, rfl⟩

theorem checkSchedule_keep {s s' : State τ} {e e' : Env} {n : Nat} {slow : Bool} (h : checkSchedule s e n slow = .ok (s', e')) :
    AList.keys s'.node2pending = AList.keys s.node2pending ∧ s'.maxschedchunk = s.maxschedchunk ∧
      s'.collection = s.collection ∧ (s.pending = [] → s'.pending = []) := by
  unfold checkSchedule at h
  by_cases hsd : e.flags.shuttingDown n = true
  · simp [hsd] at h; obtain ⟨rfl, _⟩ := h; exact ⟨rfl, rfl, rfl, fun hh => hh⟩
  · simp only [hsd] at h
    by_cases hp : s.pending.isEmpty = true
    · simp [hp] at h; obtain ⟨rfl, _⟩ := h; exact ⟨rfl, rfl, rfl, fun hh => hh⟩
    · simp only [hp] at h
      have hpne : s.pending ≠ [] := by
        intro hh; rw [hh] at hp; simp at hp
      by_cases hz : s.node2pending.length = 0
      · simp [hz] at h
      · simp only [hz] at h
        cases hb : s.node2pending.get n with
        | error err => simp [hb, bind, Except.bind] at h
        | ok book =>
          simp only [hb, bind, Except.bind] at h
          by_cases hlt : book.length < max 2 (s.pending.length / s.node2pending.length / 4)
          · simp only [hlt] at h
            by_cases hsl : (slow && decide (book.length ≥ 2)) = true
            · simp [hsl] at h; obtain ⟨rfl, _⟩ := h; exact ⟨rfl, rfl, rfl, fun hh => hh⟩
            · simp only [hsl] at h
              cases hm : s.maxschedchunk with
              | none => simp [hm] at h
              | some msc =>
                simp only [hm] at h
                obtain ⟨a, b, c⟩ := sendTests_keep h
                exact ⟨a, b.trans hm, c, fun hh => absurd hh hpne⟩
          · simp [hlt] at h; obtain ⟨rfl, _⟩ := h; exact ⟨rfl, rfl, rfl, fun hh => hh⟩

theorem MscOk.of_frame {s s' : State τ} (hm : MscOk s) (h2 : s'.maxschedchunk = s.maxschedchunk)
    (h3 : s.pending = [] → s'.pending = []) : MscOk s' := by
  intro hp
  rw [h2]
  exact hm (fun hh => hp (h3 hh))

theorem checkAll_total (ns : List Nat) : ∀ (s : State τ) (e : Env), (∀ n ∈ ns, n ∈ AList.keys s.node2pending) → MscOk s →
    ∃ r, checkAll s e ns = .ok r := by
  induction ns with
  | nil => intro s e _ _; exact ⟨_, rfl⟩
  | cons n t ih =>
    intro s e hns hm
    obtain ⟨⟨s1, e1⟩, h1⟩ := checkSchedule_total s e false (hns n (by simp)) hm
    obtain ⟨f1, f2, _, f4⟩ := checkSchedule_keep h1
    obtain ⟨r, hr⟩ := ih s1 e1 (fun m hm' => by rw [f1]; exact hns m (List.mem_cons_of_mem _ hm')) (hm.of_frame f2 f4)
    exact ⟨r, by simp only [checkAll, h1, bind, Except.bind]; exact hr⟩

theorem checkAll_keep {ns : List Nat} : ∀ {s s' : State τ} {e e' : Env}, checkAll s e ns = .ok (s', e') →
    AList.keys s'.node2pending = AList.keys s.node2pending ∧ s'.maxschedchunk = s.maxschedchunk ∧
      s'.collection = s.collection := by
  induction ns with
  | nil => intro s s' e e' h; simp only [checkAll, Except.ok.injEq, Prod.mk.injEq] at h; obtain ⟨rfl, _⟩ := h; exact ⟨rfl, rfl, rfl⟩
  | cons n t ih =>
    intro s s' e e' h
    simp only [checkAll] at h
    obtain ⟨⟨s1, e1⟩, h1, h2⟩ := bind_ok.1 h
    obtain ⟨a1, a2, a3, _⟩ := checkSchedule_keep h1
    obtain ⟨b1, b2, b3⟩ := ih h2
    exact ⟨b1.trans a1, b2.trans a2, b3.trans a3⟩

/-- `mark_test_complete` for a test that is in the node's book -/
theorem markComplete_total (s : State τ) (e : Env) {n i : Nat} (slow : Bool) {book : List Nat}
    (hb : AList.lookup s.node2pending n = some book) (hi : i ∈ book) (hm : MscOk s) :
    ∃ r, markComplete s e n i slow = .ok r := by
  unfold markComplete
  simp only [AList.get_eq_ok.2 hb, bind, Except.bind, PyList.remove, hi, ↓reduceIte]
  apply checkSchedule_total
  · exact (AList.mem_keys_set _ _ _ _).2 (Or.inl rfl)
  · exact hm

/-- `remove_node` for a registered node whose book holds valid indices -/
theorem removeNode_total (s : State τ) (e : Env) {n : Nat} {book : List Nat} (hb : AList.lookup s.node2pending n = some book)
    (hc : ∀ i rest, book = i :: rest → ∃ col item, s.collection = some col ∧ col[i]? = some item)
    (hm : s.pending ≠ [] ∨ 2 ≤ book.length → s.maxschedchunk.isSome = true) :
    ∃ r, removeNode s e n = .ok r := by
  have hp : s.node2pending.pop n = .ok (book, AList.erase s.node2pending n) := AList.pop_eq_ok.2 ⟨hb, rfl⟩
  unfold removeNode
  simp only [hp, bind, Except.bind]
  cases book with
  | nil => exact ⟨_, rfl⟩
  | cons i rest =>
    obtain ⟨col, item, hcol, hi⟩ := hc i rest rfl
    simp only [hcol, hi]
    obtain ⟨⟨s3, e3⟩, h3⟩ := checkAll_total (AList.keys (AList.erase s.node2pending n))
      ({ s with node2pending := AList.erase s.node2pending n, pending := s.pending ++ rest } : State τ) e (fun m hm' => hm') (by
        intro hpne
        apply hm
        simp only at hpne
        cases hr : rest with
        | nil =>
          left
          intro hh
          rw [hr, hh] at hpne
          exact hpne rfl
        | cons a b => right; simp [hr])
    refine ⟨(s3, e3, some item), ?_⟩
    have h3' : checkAll ({ s with node2pending := AList.erase s.node2pending n, pending := s.pending ++ rest } : State τ) e
        (AList.keys (AList.erase s.node2pending n)) = .ok (s3, e3) := h3
    rw [hcol] at h3'
    rw [h3']

/-- `mark_test_pending` for a test of the agreed collection -/
theorem markPending_total (s : State τ) (e : Env) {t : τ} {col : List τ} (hc : s.collection = some col) (ht : t ∈ col)
    (hm : s.maxschedchunk.isSome = true) : ∃ r, markPending s e t = .ok r := by
  have hidx : ∃ idx, PyList.index col t = .ok idx := by
    clear hc
    induction col with
    | nil => cases ht
    | cons a r ih =>
      simp only [PyList.index]
      split
      · exact ⟨0, rfl⟩
      · rename_i hne
        rcases List.mem_cons.1 ht with h | h
        · exact absurd h.symm hne
        · obtain ⟨j, hj⟩ := ih h
          exact ⟨j + 1, by rw [hj]; rfl⟩
  obtain ⟨idx, hidx⟩ := hidx
  unfold markPending
  simp only [hc, hidx, bind, Except.bind]
  exact checkAll_total _ _ _ (fun m hm' => hm') (fun _ => hm)

theorem sendEach_total (num : Int) (ns : List Nat) : ∀ (s : State τ) (e : Env), (∀ n ∈ ns, n ∈ AList.keys s.node2pending) →
    ∃ r, sendEach s e num ns = .ok r := by
  induction ns with
  | nil => intro s e _; exact ⟨_, rfl⟩
  | cons n t ih =>
    intro s e hns
    obtain ⟨⟨s1, e1⟩, h1⟩ := sendTests_total s e num (hns n (by simp))
    obtain ⟨f1, _, _⟩ := sendTests_keep h1
    obtain ⟨r, hr⟩ := ih s1 e1 (fun m hm => by rw [f1]; exact hns m (List.mem_cons_of_mem _ hm))
    exact ⟨r, by simp only [sendEach, h1, bind, Except.bind]; exact hr⟩

theorem roundRobin_total (ns : List Nat) (hne : ns ≠ []) (k : Nat) : ∀ (i : Nat) (s : State τ) (e : Env),
    (∀ n ∈ ns, n ∈ AList.keys s.node2pending) → ∃ r, roundRobin ns s e k i = .ok r := by
  induction k with
  | zero => intro i s e _; exact ⟨_, rfl⟩
  | succ k ih =>
    intro i s e hns
    have hlen : 0 < ns.length := List.length_pos_iff.2 hne
    have hlt : i % ns.length < ns.length := Nat.mod_lt _ hlen
    have hget : ns[i % ns.length]? = some ns[i % ns.length] := by simp [hlt]
    obtain ⟨⟨s1, e1⟩, h1⟩ := sendTests_total s e 1 (hns _ (List.getElem_mem hlt))
    obtain ⟨f1, _, _⟩ := sendTests_keep h1
    obtain ⟨r, hr⟩ := ih (i + 1) s1 e1 (fun m hm => by rw [f1]; exact hns m hm)
    refine ⟨r, ?_⟩
    simp only [roundRobin, hget, h1, bind, Except.bind]
    exact hr

theorem initialSend_total (s : State τ) (e : Env) (n : Nat) (msc : Int) (hk : s.node2pending ≠ []) :
    ∃ r, initialSend s e n msc = .ok r := by
  have hne : nodes s ≠ [] := by
    unfold nodes AList.keys
    intro hh
    exact hk (List.map_eq_nil_iff.1 hh)
  have hdist : ∃ r, initialDistribute s e n msc = .ok r := by
    unfold initialDistribute
    simp only
    split
    · exact roundRobin_total _ hne _ _ _ _ (fun m hm => hm)
    · have : s.node2pending.length ≠ 0 := by
        intro hz; exact hk (List.length_eq_zero_iff.1 hz)
      simp only [this, ↓reduceIte]
      exact sendEach_total _ _ _ _ (fun m hm => hm)
  obtain ⟨r, hr⟩ := hdist
  unfold initialSend
  simp only [hr, Except.bind]
  split <;> exact ⟨_, rfl⟩

/-- `schedule()` once the collection is complete -/
theorem schedule_total (s : State τ) (e : Env) (hc : collectionIsCompleted s = true) (hm : MscOk s) (hk : s.node2pending ≠ [])
    (hcol : s.collection = none → s.node2collection ≠ []) : ∃ r, schedule s e = .ok r := by
  unfold schedule
  simp only [hc, Bool.not_true, Bool.false_eq_true, ↓reduceIte]
  cases hcl : s.collection with
  | some col => exact checkAll_total _ _ _ (fun m hm' => hm') hm
  | none =>
    simp only
    cases hn : s.node2collection with
    | nil => exact absurd hn (hcol hcl)
    | cons p rest =>
      obtain ⟨first, col⟩ := p
      simp only
      unfold scheduleFirst
      simp only
      split
      · exact ⟨_, rfl⟩
      · split
        · exact ⟨_, rfl⟩
        · exact initialSend_total _ _ _ _ hk

/-- `add_node_collection` for a registered node -/
theorem addNodeCollection_total (s : State τ) {n : Nat} (c : List τ) (hn : n ∈ AList.keys s.node2pending)
    (hcomp : collectionIsCompleted s = true → ∃ col, s.collection = some col ∧ col ≠ []) :
    ∃ s', addNodeCollection s n c = .ok s' := by
  have hcon : s.node2pending.contains n = true := by
    unfold AList.contains; exact (AList.lookup_isSome_iff_mem_keys _ _).2 hn
  unfold addNodeCollection
  simp only [hcon, Bool.not_true, Bool.false_eq_true, ↓reduceIte]
  split
  · rename_i hc
    obtain ⟨col, h1, h2⟩ := hcomp hc
    simp only [h1]
    have : col.isEmpty = false := by cases col <;> simp_all
    simp only [this, Bool.false_eq_true, ↓reduceIte]
    split <;> exact ⟨_, rfl⟩
  · exact ⟨_, rfl⟩

end Xdist.Load
