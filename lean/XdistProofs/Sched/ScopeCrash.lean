import XdistProofs.Sched.ScopeUnits
import XdistModel.Pure.SplitScope
/-!
  C03 for the loadscope family (`loadscope.py remove_node`, repaired): when a worker with unfinished work goes, the crash item is
  **the first not completed test of its assigned work** — units in the order they were assigned, tests in unit order —, the
  "unable to identify crashitem" branch is unreachable, and that test is what `remove_node` returns to `DSession`.
-/
namespace Xdist.LoadScope
open Xdist

set_option linter.unusedSectionVars false

variable {κ τ : Type} [DecidableEq κ] [DecidableEq τ]

theorem unitPending_zero_iff {u : WUnit τ} : unitPending u = 0 ↔ ∀ q ∈ u, q.2 = true := by
  unfold unitPending
  rw [List.length_eq_zero_iff, List.filter_eq_nil_iff]
  constructor
  · intro h q hq; simpa using h q hq
  · intro h q hq; simpa using h q hq

/-- work left ⇒ a first not completed test exists: `RuntimeError("Unable to identify crashitem …")` cannot happen -/
theorem firstPending_of_pending {w : Workload κ τ} (h : pendingOf w ≠ 0) : ∃ scope item, firstPending w = some (scope, item) := by
  induction w with
  | nil => simp [pendingOf] at h
  | cons a t ih =>
    obtain ⟨k, wu⟩ := a
    simp only [firstPending]
    cases hf : wu.find? (fun p => !p.2) with
    | some p => obtain ⟨t0, b0⟩ := p; exact ⟨k, t0, rfl⟩
    | none =>
      have hz : unitPending wu = 0 := by
        rw [unitPending_zero_iff]
        intro q hq
        have := List.find?_eq_none.1 hf q hq
        simpa using this
      have : pendingOf t ≠ 0 := by
        intro ht; apply h
        simp only [pendingOf, List.map_cons, List.sum_cons, hz, Nat.zero_add] at ht ⊢
        exact ht
      exact ih this

/-- what "first" means: every unit before it is fully completed, and inside its unit every test before it is completed -/
theorem firstPending_spec {w : Workload κ τ} {scope : κ} {item : τ} (h : firstPending w = some (scope, item)) :
    ∃ pre wu post a b, w = pre ++ (scope, wu) :: post ∧ (∀ p ∈ pre, ∀ q ∈ p.2, q.2 = true) ∧
      wu = a ++ (item, false) :: b ∧ ∀ q ∈ a, q.2 = true := by
  induction w with
  | nil => simp [firstPending] at h
  | cons x t ih =>
    obtain ⟨k, wu⟩ := x
    simp only [firstPending] at h
    split at h
    · rename_i t0 b0 hf
      simp only [Option.some.injEq, Prod.mk.injEq] at h
      obtain ⟨rfl, rfl⟩ := h
      obtain ⟨hp, as, bs, hl, has⟩ := List.find?_eq_some_iff_append.1 hf
      have hb0 : b0 = false := by simpa using hp
      subst hb0
      refine ⟨[], wu, t, as, bs, rfl, ?_, hl, ?_⟩
      · intro p hp; cases hp
      · intro q hq; simpa using has q hq
    · rename_i hf
      obtain ⟨pre, wu', post, a, b, hw, hpre, hwu, ha⟩ := ih h
      refine ⟨(k, wu) :: pre, wu', post, a, b, by rw [hw]; rfl, ?_, hwu, ha⟩
      intro p hp
      rcases List.mem_cons.1 hp with rfl | hp
      · intro q hq
        have := List.find?_eq_none.1 hf q hq
        simpa using this
      · exact hpre p hp

/-- **The crash item of the loadscope family** (C03).  When a worker whose assigned work is not all completed is removed, the test
    handed back to `DSession` as the crash item is the first not completed test of that work (`firstPending_spec` says what "first"
    means), whatever happens to the other workers in the rescheduling that follows. -/
theorem C03_loadscope_crash_item {s s' : State κ τ} {e e' : Env} {n : Nat} {r : Option τ} {workload : Workload κ τ}
    (hl : AList.lookup s.assigned n = some workload) (hp : pendingOf workload ≠ 0)
    (h : removeNode s e n = .ok (s', e', r)) :
    ∃ scope item, firstPending workload = some (scope, item) ∧ r = some item := by
  obtain ⟨scope, item, hfp⟩ := firstPending_of_pending hp
  refine ⟨scope, item, hfp, ?_⟩
  unfold removeNode at h
  obtain ⟨⟨wl, asg⟩, hpop, h⟩ := bind_ok.1 h
  obtain ⟨hl', _⟩ := AList.pop_eq_ok.1 hpop
  rw [hl] at hl'
  simp only [Option.some.injEq] at hl'
  subst hl'
  simp only [hp, if_false, hfp] at h
  obtain ⟨⟨s3, e3⟩, _, h⟩ := bind_ok.1 h
  simp only [Except.ok.injEq, Prod.mk.injEq] at h
  exact h.2.2.symm

/-- a worker with nothing left is removed without a crash item -/
theorem C03_loadscope_idle_death {s s' : State κ τ} {e e' : Env} {n : Nat} {r : Option τ} {workload : Workload κ τ}
    (hl : AList.lookup s.assigned n = some workload) (hp : pendingOf workload = 0)
    (h : removeNode s e n = .ok (s', e', r)) : r = none ∧ e' = e ∧ s'.workqueue = s.workqueue := by
  unfold removeNode at h
  obtain ⟨⟨wl, asg⟩, hpop, h⟩ := bind_ok.1 h
  obtain ⟨hl', _⟩ := AList.pop_eq_ok.1 hpop
  rw [hl] at hl'
  simp only [Option.some.injEq] at hl'
  subst hl'
  simp only [hp, if_true, Except.ok.injEq, Prod.mk.injEq] at h
  obtain ⟨rfl, rfl, rfl⟩ := h
  exact ⟨rfl, rfl, rfl⟩

/-- the units of a dead worker that go back to the queue: the crash item marked completed, units with nothing left dropped -/
def requeued (workload : Workload κ τ) (scope : κ) (item : τ) : Workload κ τ :=
  (workload.map (fun p => if p.1 = scope then (p.1, AList.set p.2 item true) else p)).filter (fun p => !(p.2.all (fun q => q.2)))

/-- **After a crash the unfinished remainder of every unit goes back to the queue as a unit** (C06/C03).  `remove_node` of a worker with
    work left: drops its entry, marks the crash item completed in its unit, appends to the queue (`dict.update`) exactly those of its
    units that still have a test not completed — each under its own key, each a unit of the dead worker's, in which the crash item is
    marked completed — and then reschedules; so a remainder is handed out again by `_assign_work_unit`, whole, to one worker
    (`C06_assign_sends_whole_unit`). -/
theorem C06_after_crash_requeue {s s' : State κ τ} {e e' : Env} {n : Nat} {r : Option τ} {workload : Workload κ τ}
    (hl : AList.lookup s.assigned n = some workload) (hp : pendingOf workload ≠ 0)
    (h : removeNode s e n = .ok (s', e', r)) :
    ∃ scope item, firstPending workload = some (scope, item) ∧
      rescheduleAll ({ s with assigned := AList.erase s.assigned n, workqueue := AList.update s.workqueue (requeued workload scope item) } : State κ τ)
        e (AList.keys (AList.erase s.assigned n)) = .ok (s', e') ∧
      (∀ p ∈ requeued workload scope item, ∃ q ∈ p.2, q.2 = false) ∧
      (∀ p ∈ requeued workload scope item, p.1 ∈ AList.keys workload) ∧
      (∀ p ∈ requeued workload scope item, p.1 = scope → AList.lookup p.2 item = some true) := by
  obtain ⟨scope, item, hfp⟩ := firstPending_of_pending hp
  refine ⟨scope, item, hfp, ?_, ?_, ?_, ?_⟩
  · unfold removeNode at h
    obtain ⟨⟨wl, asg⟩, hpop, h⟩ := bind_ok.1 h
    obtain ⟨hl', hasg⟩ := AList.pop_eq_ok.1 hpop
    rw [hl] at hl'
    simp only [Option.some.injEq] at hl'
    subst hl' hasg
    simp only [hp, if_false, hfp] at h
    obtain ⟨⟨s3, e3⟩, h3, h⟩ := bind_ok.1 h
    simp only [Except.ok.injEq, Prod.mk.injEq] at h
    obtain ⟨rfl, rfl, _⟩ := h
    exact h3
  · intro p hp'
    have hf := (List.mem_filter.1 hp').2
    simp only [Bool.not_eq_true', List.all_eq_false] at hf
    obtain ⟨q, hq, hq2⟩ := hf
    exact ⟨q, hq, by simpa using hq2⟩
  · intro p hp'
    obtain ⟨p0, hp0, hpe⟩ := List.mem_map.1 (List.mem_filter.1 hp').1
    have : p0.1 = p.1 := by
      split at hpe
      · rw [← hpe]
      · rw [← hpe]
    exact this ▸ List.mem_map.2 ⟨p0, hp0, rfl⟩
  · intro p hp' hps
    obtain ⟨p0, hp0, hpe⟩ := List.mem_map.1 (List.mem_filter.1 hp').1
    split at hpe
    · rw [← hpe]; exact AList.lookup_set_same _ _ _
    · rename_i hne
      exact absurd (by rw [← hps, ← hpe]) hne

/-! Non-vacuity: `loadfile`, two workers, four files; worker 0 holds the units of `a.py` and (after its first completion) `d.py`,
    completes `a.py::x` and dies: the crash item is `a.py::y`; the remainder of `a.py` (`a.py::z` left, the crash item marked completed)
    and the untouched `d.py` are back in the queue, each as a unit (worker 1 still has more than two tests, so nothing is sent yet). -/
def exCrash : Except PyErr (Option String × List (String × List (String × Bool)) × List SOut) := do
  let col := ["a.py::x", "a.py::y", "a.py::z", "b.py::u", "b.py::v", "c.py::w", "d.py::w"]
  let s0 : State String String := init 2
  let (s1, e1, _) ← step SplitScope.fileKeyS s0 {} (.addNode 0)
  let (s2, e2, _) ← step SplitScope.fileKeyS s1 e1 (.addNode 1)
  let (s3, e3, _) ← step SplitScope.fileKeyS s2 e2 (.addNodeCollection 0 col)
  let (s4, e4, _) ← step SplitScope.fileKeyS s3 e3 (.addNodeCollection 1 col)
  let (s5, e5, _) ← step SplitScope.fileKeyS s4 e4 .schedule
  let (s6, e6, _) ← step SplitScope.fileKeyS s5 e5 (.markComplete 0 0 false)
  let (s7, e7, r) ← step SplitScope.fileKeyS s6 e6 (.removeNode 0)
  pure (r, s7.workqueue, e7.outs)

example : (match exCrash with
    | .ok x => x == (some "a.py::y",
        [("a.py", [("a.py::x", true), ("a.py::y", true), ("a.py::z", false)]), ("d.py", [("d.py::w", false)])],
        [.run 0 [0, 1, 2], .run 1 [3, 4], .run 1 [5], .run 0 [6]])
    | .error _ => false) = true := by decide +kernel

end Xdist.LoadScope
