import XdistProofs.Sched.LoadJ
/-!
  A potential for termination (`--dist load`): six units for every test the scheduler has not handed out yet, six for every
  worker that has not been told to shut down, and for what is on the wire one unit per command plus five per test it carries
  (six for a shutdown signal).  No scheduler call other than `remove_node` / `mark_test_pending` and no shutdown signal
  increases it: whatever is put on the wire has been paid for by tests leaving the pool or by a shutdown flag being set.
-/
namespace Xdist
open Xdist

/-- weight of a command on the wire, counted only when it is addressed to one of the first `N` workers -/
def outW (N : Nat) : SOut → Nat
  | .run n is => if n < N then 1 + 5 * is.length else 0
  | .shutdown n => if n < N then 6 else 0
  | .runAll n => if n < N then 1 else 0
  | .steal n _ => if n < N then 1 else 0
  | .collectReport _ _ => 0

def outsW (N : Nat) (l : List SOut) : Nat := (l.map (outW N)).sum

def unsentW (f : NodeFlags) : Nat := if f.down || f.sent then 0 else 6

/-- six units for each of the first `N` workers that has neither finished nor been told to shut down -/
def unsent (N : Nat) (fl : Flags) : Nat := ((List.range N).map fun k => unsentW (fl.get k)).sum

/-- flags and wire together -/
def envPot (N : Nat) (e : Env) : Nat := unsent N e.flags + outsW N e.outs

theorem outsW_append (N : Nat) (a b : List SOut) : outsW N (a ++ b) = outsW N a + outsW N b := by
  simp [outsW, List.sum_append]

theorem outsW_nil (N : Nat) : outsW N [] = 0 := rfl

theorem unsent_congr (N : Nat) {f g : Flags} (h : ∀ k, k < N → unsentW (f.get k) = unsentW (g.get k)) : unsent N f = unsent N g := by
  unfold unsent
  congr 1
  apply List.map_congr_left
  intro k hk
  exact h k (List.mem_range.1 hk)

/-- setting the flags of worker `n` changes the sum by exactly that worker's share -/
theorem unsent_set (N : Nat) (fl : Flags) (n : Nat) (v : NodeFlags) :
    unsent N (AList.set fl n v) + (if n < N then unsentW (fl.get n) else 0) =
      unsent N fl + (if n < N then unsentW v else 0) := by
  induction N with
  | zero => simp [unsent]
  | succ N ih =>
    have e1 : unsent (N + 1) (AList.set fl n v) = unsent N (AList.set fl n v) + unsentW (Flags.get (AList.set fl n v) N) := by
      simp [unsent, List.range_succ, List.sum_append]
    have e2 : unsent (N + 1) fl = unsent N fl + unsentW (fl.get N) := by
      simp [unsent, List.range_succ, List.sum_append]
    rw [e1, e2, Contract.flags_get_set]
    by_cases h1 : n < N
    · have h2 : n < N + 1 := by omega
      have h3 : N ≠ n := by omega
      simp only [h1, h2, h3, if_true, if_false] at ih ⊢
      omega
    · by_cases h2 : n = N
      · subst h2
        simp only [Nat.lt_irrefl, if_false, Nat.add_zero] at ih
        simp only [Nat.lt_succ_self, if_true]
        omega
      · have h3 : ¬ n < N + 1 := by omega
        have h4 : N ≠ n := fun h => h2 h.symm
        simp only [h1, h3, h4, if_false, Nat.add_zero] at ih ⊢
        omega

/-- `WorkerController.shutdown()`: the signal on the wire is paid for by the flag -/
theorem shutdown_pot (N : Nat) (e : Env) (n : Nat) : envPot N (e.shutdown n) ≤ envPot N e := by
  unfold Env.shutdown envPot
  by_cases hd : ((e.flags.get n).down || (e.flags.get n).sent) = true
  · simp only [hd, if_true]; exact Nat.le_refl _
  · simp only [hd, Bool.false_eq_true, if_false]
    have hu := unsent_set N e.flags n { e.flags.get n with sent := true }
    have hw0 : unsentW (e.flags.get n) = 6 := by unfold unsentW; simp [hd]
    have hw1 : unsentW ({ e.flags.get n with sent := true } : NodeFlags) = 0 := by unfold unsentW; simp
    rw [hw0, hw1] at hu
    split
    · by_cases hn : n < N
      · simp only [hn, if_true] at hu; omega
      · simp only [hn, if_false] at hu; omega
    · rw [outsW_append]
      have hs : outsW N [SOut.shutdown n] = if n < N then 6 else 0 := by simp [outsW, outW]
      rw [hs]
      by_cases hn : n < N
      · simp only [hn, if_true] at hu ⊢; omega
      · simp only [hn, if_false] at hu ⊢; omega

theorem shutdownAll_pot (N : Nat) (ns : List Nat) : ∀ e : Env, envPot N (e.shutdownAll ns) ≤ envPot N e := by
  induction ns with
  | nil => intro e; exact Nat.le_refl _
  | cons n t ih => intro e; exact Nat.le_trans (ih _) (shutdown_pot N e n)

namespace Load
open Xdist.Contract

variable {τ : Type} [DecidableEq τ]

/-- tests the scheduler has not handed out yet: the pool, or — before the first `schedule()` — the whole collection -/
def pot (L : Nat) (s : State τ) : Nat :=
  (match s.collection with
   | none => L
   | some _ => 0) + s.pending.length

theorem slice_length (l : List Nat) (k : Int) : (PyList.sliceTo l k).length + (PyList.sliceFrom l k).length = l.length := by
  unfold PyList.sliceTo PyList.sliceFrom
  split <;> simp [List.length_take, List.length_drop] <;> omega

omit [DecidableEq τ] in
/-- `_send_tests`: what goes on the wire has left the pool -/
theorem sendTests_pot (N : Nat) {s s' : State τ} {e e' : Env} {n : Nat} {num : Int} (h : sendTests s e n num = .ok (s', e')) :
    s'.collection = s.collection ∧ s'.node2collection = s.node2collection ∧
      6 * s'.pending.length + envPot N e' ≤ 6 * s.pending.length + envPot N e := by
  unfold sendTests at h
  simp only at h
  split at h
  · simp only [Except.ok.injEq, Prod.mk.injEq] at h; obtain ⟨rfl, rfl⟩ := h; exact ⟨rfl, rfl, Nat.le_refl _⟩
  · rename_i hne
    obtain ⟨book, hb, h⟩ := bind_ok.1 h
    obtain ⟨e1, he1, h⟩ := bind_ok.1 h
    simp only [Except.ok.injEq, Prod.mk.injEq] at h
    obtain ⟨rfl, rfl⟩ := h
    refine ⟨rfl, rfl, ?_⟩
    simp only
    have hlen := slice_length s.pending num
    have hpos : 1 ≤ (PyList.sliceTo s.pending num).length := by
      cases hh : PyList.sliceTo s.pending num with
      | nil => rw [hh] at hne; simp at hne
      | cons a t => simp
    unfold Env.sendRun Env.send at he1
    split at he1
    · simp only [Except.ok.injEq] at he1; subst he1; omega
    · simp only [Except.ok.injEq] at he1; subst he1
      unfold envPot Env.emit
      simp only
      rw [outsW_append]
      have : outsW N [SOut.run n (PyList.sliceTo s.pending num)] ≤ 1 + 5 * (PyList.sliceTo s.pending num).length := by
        simp only [outsW, List.map_cons, List.map_nil, List.sum_cons, List.sum_nil, outW]
        split <;> omega
      omega

theorem checkSchedule_pot (N : Nat) {s s' : State τ} {e e' : Env} {n : Nat} {slow : Bool}
    (h : checkSchedule s e n slow = .ok (s', e')) :
    s'.collection = s.collection ∧ s'.node2collection = s.node2collection ∧
      6 * s'.pending.length + envPot N e' ≤ 6 * s.pending.length + envPot N e := by
  unfold checkSchedule at h
  by_cases hsd : e.flags.shuttingDown n = true
  · simp [hsd] at h; obtain ⟨rfl, rfl⟩ := h; exact ⟨rfl, rfl, Nat.le_refl _⟩
  · simp only [hsd] at h
    by_cases hpe : s.pending.isEmpty = true
    · simp [hpe] at h; obtain ⟨rfl, rfl⟩ := h
      exact ⟨rfl, rfl, Nat.add_le_add_left (shutdown_pot N e n) _⟩
    · simp only [hpe] at h
      by_cases hz : s.node2pending.length = 0
      · simp [hz] at h
      · simp only [hz] at h
        cases hb : s.node2pending.get n with
        | error err => simp [hb, bind, Except.bind] at h
        | ok book =>
          simp only [hb, bind, Except.bind] at h
          by_cases hlt : book.length < max 2 (s.pending.length / s.node2pending.length / 4)
          · simp only [hlt] at h
            by_cases hsl : (slow && decide (book.length ≥ 2)) = true
            · simp [hsl] at h; obtain ⟨rfl, rfl⟩ := h; exact ⟨rfl, rfl, Nat.le_refl _⟩
            · simp only [hsl] at h
              cases hm : s.maxschedchunk with
              | none => simp [hm] at h
              | some msc =>
                simp only [hm] at h
                exact sendTests_pot N h
          · simp [hlt] at h; obtain ⟨rfl, rfl⟩ := h; exact ⟨rfl, rfl, Nat.le_refl _⟩

theorem checkAll_pot (N : Nat) {ns : List Nat} : ∀ {s s' : State τ} {e e' : Env}, checkAll s e ns = .ok (s', e') →
    s'.collection = s.collection ∧ s'.node2collection = s.node2collection ∧
      6 * s'.pending.length + envPot N e' ≤ 6 * s.pending.length + envPot N e := by
  induction ns with
  | nil =>
    intro s s' e e' h
    simp only [checkAll, Except.ok.injEq, Prod.mk.injEq] at h
    obtain ⟨rfl, rfl⟩ := h
    exact ⟨rfl, rfl, Nat.le_refl _⟩
  | cons n t ih =>
    intro s s' e e' h
    simp only [checkAll] at h
    obtain ⟨⟨s1, e1⟩, h1, h2⟩ := bind_ok.1 h
    obtain ⟨a1, a2, a3⟩ := checkSchedule_pot N h1
    obtain ⟨b1, b2, b3⟩ := ih h2
    exact ⟨b1.trans a1, b2.trans a2, Nat.le_trans b3 a3⟩

theorem sendEach_pot (N : Nat) {num : Int} {ns : List Nat} : ∀ {s s' : State τ} {e e' : Env}, sendEach s e num ns = .ok (s', e') →
    s'.collection = s.collection ∧ s'.node2collection = s.node2collection ∧
      6 * s'.pending.length + envPot N e' ≤ 6 * s.pending.length + envPot N e := by
  induction ns with
  | nil =>
    intro s s' e e' h
    simp only [sendEach, Except.ok.injEq, Prod.mk.injEq] at h
    obtain ⟨rfl, rfl⟩ := h
    exact ⟨rfl, rfl, Nat.le_refl _⟩
  | cons n t ih =>
    intro s s' e e' h
    simp only [sendEach] at h
    obtain ⟨⟨s1, e1⟩, h1, h2⟩ := bind_ok.1 h
    obtain ⟨a1, a2, a3⟩ := sendTests_pot N h1
    obtain ⟨b1, b2, b3⟩ := ih h2
    exact ⟨b1.trans a1, b2.trans a2, Nat.le_trans b3 a3⟩

theorem roundRobin_pot (N : Nat) {ns : List Nat} {k : Nat} : ∀ {i : Nat} {s s' : State τ} {e e' : Env},
    roundRobin ns s e k i = .ok (s', e') →
    s'.collection = s.collection ∧ s'.node2collection = s.node2collection ∧
      6 * s'.pending.length + envPot N e' ≤ 6 * s.pending.length + envPot N e := by
  induction k with
  | zero =>
    intro i s s' e e' h
    simp only [roundRobin, Except.ok.injEq, Prod.mk.injEq] at h
    obtain ⟨rfl, rfl⟩ := h
    exact ⟨rfl, rfl, Nat.le_refl _⟩
  | succ k ih =>
    intro i s s' e e' h
    simp only [roundRobin] at h
    split at h
    · cases h
    · obtain ⟨⟨s1, e1⟩, h1, h2⟩ := bind_ok.1 h
      obtain ⟨a1, a2, a3⟩ := sendTests_pot N h1
      obtain ⟨b1, b2, b3⟩ := ih h2
      exact ⟨b1.trans a1, b2.trans a2, Nat.le_trans b3 a3⟩

theorem initialSend_pot (N : Nat) {s s' : State τ} {e e' : Env} {n : Nat} {msc : Int} (h : initialSend s e n msc = .ok (s', e')) :
    s'.collection = s.collection ∧ s'.node2collection = s.node2collection ∧
      6 * s'.pending.length + envPot N e' ≤ 6 * s.pending.length + envPot N e := by
  unfold initialSend at h
  obtain ⟨⟨s3, e3⟩, hsend, h⟩ := bind_ok.1 h
  have h3 : s3.collection = s.collection ∧ s3.node2collection = s.node2collection ∧
      6 * s3.pending.length + envPot N e3 ≤ 6 * s.pending.length + envPot N e := by
    unfold initialDistribute at hsend
    dsimp only at hsend
    split at hsend
    · exact roundRobin_pot N hsend
    · split at hsend
      · cases hsend
      · exact sendEach_pot N hsend
  obtain ⟨a1, a2, a3⟩ := h3
  split at h
  · simp only [Except.ok.injEq, Prod.mk.injEq] at h; obtain ⟨rfl, rfl⟩ := h
    exact ⟨a1, a2, Nat.le_trans (Nat.add_le_add_left (shutdownAll_pot N _ _) _) a3⟩
  · simp only [Except.ok.injEq, Prod.mk.injEq] at h; obtain ⟨rfl, rfl⟩ := h
    exact ⟨a1, a2, a3⟩

theorem mem_alist_set {κ ν : Type} [DecidableEq κ] {d : AList κ ν} {x : κ} {v : ν} {p : κ × ν} (hp : p ∈ AList.set d x v) :
    p ∈ d ∨ p = (x, v) := by
  induction d with
  | nil => simp only [AList.set, List.mem_singleton] at hp; exact Or.inr hp
  | cons a t ih =>
    obtain ⟨k, w⟩ := a
    simp only [AList.set] at hp
    split at hp
    · rename_i hk
      rcases List.mem_cons.1 hp with hp | hp
      · exact Or.inr (by rw [hp, hk])
      · exact Or.inl (List.mem_cons_of_mem _ hp)
    · rcases List.mem_cons.1 hp with hp | hp
      · exact Or.inl (by rw [hp]; simp)
      · rcases ih hp with h' | h'
        · exact Or.inl (List.mem_cons_of_mem _ h')
        · exact Or.inr h'

/-- every registered collection has at most `L` tests -/
def CollLe (L : Nat) (s : State τ) : Prop := ∀ p ∈ s.node2collection, p.2.length ≤ L

/-- the whole potential of scheduler and wire -/
def Pot (N L : Nat) (s : State τ) (e : Env) : Nat := 6 * pot L s + envPot N e

theorem outsW_diffs (N : Nat) (first : Nat) (col : List τ) (rest : AList Nat (List τ)) :
    outsW N (collectionDiffs first col rest) = 0 := by
  unfold collectionDiffs outsW
  induction (List.filter (fun p => decide (p.2 ≠ col)) rest) with
  | nil => rfl
  | cons a t ih => simp only [List.map_cons, List.sum_cons, outW, Nat.zero_add]; exact ih

/-- **a scheduler call that puts nothing back does not increase the potential** -/
theorem step_pot (N L : Nat) {s s' : State τ} {e e' : Env} {op : SOp τ} {r : Option τ} (h : step s e op = .ok (s', e', r))
    (hop : (∀ n, op ≠ .removeNode n) ∧ (∀ t, op ≠ .markPending t)) (hc : CollLe L s)
    (hadd : ∀ n c, op = .addNodeCollection n c → c.length ≤ L) :
    Pot N L s' e' ≤ Pot N L s e ∧ CollLe L s' := by
  cases op with
  | addNode n =>
    simp only [step] at h
    obtain ⟨s1, h1, h2⟩ := map_ok.1 h
    simp at h2; obtain ⟨rfl, rfl, _⟩ := h2
    unfold addNode at h1
    split at h1
    · cases h1
    · simp only [Except.ok.injEq] at h1; subst h1
      exact ⟨Nat.le_refl _, hc⟩
  | addNodeCollection n c =>
    simp only [step] at h
    obtain ⟨s1, h1, h2⟩ := map_ok.1 h
    simp at h2; obtain ⟨rfl, rfl, _⟩ := h2
    have hcl := hadd n c rfl
    have hset : CollLe L ({ s with node2collection := s.node2collection.set n c } : State τ) := by
      intro p hp
      simp only at hp
      have : p ∈ s.node2collection ∨ p = (n, c) := mem_alist_set hp
      rcases this with h' | h'
      · exact hc p h'
      · rw [h']; exact hcl
    unfold addNodeCollection at h1
    split at h1
    · cases h1
    · split at h1
      · split at h1
        · cases h1
        · split at h1
          · cases h1
          · split at h1
            · simp only [Except.ok.injEq] at h1; subst h1; exact ⟨Nat.le_refl _, hc⟩
            · simp only [Except.ok.injEq] at h1; subst h1; exact ⟨Nat.le_refl _, hset⟩
      · simp only [Except.ok.injEq] at h1; subst h1; exact ⟨Nat.le_refl _, hset⟩
  | schedule =>
    simp only [step] at h
    obtain ⟨⟨s1, e1⟩, h1, h2⟩ := map_ok.1 h
    simp at h2; obtain ⟨rfl, rfl, _⟩ := h2
    unfold schedule at h1
    split at h1
    · cases h1
    · cases hcn : s.collection with
      | some col =>
        simp only [hcn] at h1
        obtain ⟨a1, a2, a3⟩ := checkAll_pot N h1
        refine ⟨?_, by unfold CollLe; rw [a2]; exact hc⟩
        unfold Pot pot
        rw [a1, hcn]
        simp only
        omega
      | none =>
        simp only [hcn] at h1
        split at h1
        · cases h1
        · rename_i first col rest hreg
          have hcol : col.length ≤ L := hc (first, col) (by rw [hreg]; simp)
          unfold scheduleFirst at h1
          simp only at h1
          split at h1
          · simp only [Except.ok.injEq, Prod.mk.injEq] at h1; obtain ⟨rfl, rfl⟩ := h1
            refine ⟨?_, hc⟩
            unfold Pot envPot
            show 6 * pot L s + (unsent N e.flags + outsW N (e.outs ++ collectionDiffs first col rest)) ≤ _
            rw [outsW_append, outsW_diffs]
            omega
          · split at h1
            · simp only [Except.ok.injEq, Prod.mk.injEq] at h1; obtain ⟨rfl, rfl⟩ := h1
              refine ⟨?_, hc⟩
              unfold Pot pot envPot
              simp only [hcn]
              rw [outsW_append, outsW_diffs]
              simp only [List.length_range]
              omega
            · obtain ⟨a1, a2, a3⟩ := initialSend_pot N h1
              refine ⟨?_, by unfold CollLe; rw [a2]; exact hc⟩
              unfold Pot pot
              rw [a1, hcn]
              simp only [List.length_range] at a3 ⊢
              have : envPot N { flags := e.flags, outs := e.outs ++ collectionDiffs first col rest } = envPot N e := by
                unfold envPot
                rw [outsW_append, outsW_diffs]; rfl
              rw [this] at a3
              omega
  | markComplete n i slow =>
    simp only [step] at h
    obtain ⟨⟨s1, e1⟩, h1, h2⟩ := map_ok.1 h
    simp at h2; obtain ⟨rfl, rfl, _⟩ := h2
    unfold markComplete at h1
    obtain ⟨book, _, h1⟩ := bind_ok.1 h1
    obtain ⟨book', _, h1⟩ := bind_ok.1 h1
    obtain ⟨a1, a2, a3⟩ := checkSchedule_pot N h1
    simp only at a1 a2 a3
    refine ⟨?_, by unfold CollLe; rw [a2]; exact hc⟩
    unfold Pot pot
    rw [a1]
    omega
  | markPending t => exact absurd rfl (hop.2 t)
  | removePending n is => simp [step] at h
  | removeNode n => exact absurd rfl (hop.1 n)

end Load
end Xdist
