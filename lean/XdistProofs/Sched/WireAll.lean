import XdistProofs.Sched.OtherShutOnce
import XdistProofs.Contract.Wire
/-!
  **Nothing is addressed to a worker behind its shutdown signal** (`NoAfter`, with `SentSync`: a signal on the wire means the flag
  is set) — kept by every call of `EachScheduling`, `WorkStealingScheduling` and `LoadScopeScheduling` (hence loadfile, loadgroup),
  with no condition on the scheduler's state: every send is guarded by `node.shutting_down`, and sends do not change flags.
  (`LoadScheduling`'s first `schedule()` sends without looking at the flags; for it the statement needs a hypothesis, see Props/C16.)
-/
namespace Xdist
open Xdist Xdist.Contract

/-- the wire is well-formed -/
def WireOk (e : Env) : Prop := NoAfter e.outs ∧ SentSync e

theorem wireOk_shutdown {e : Env} (h : WireOk e) (n : Nat) : WireOk (e.shutdown n) := shutdown_wire h.1 h.2

theorem wireOk_shutdownAll (ns : List Nat) : ∀ {e : Env}, WireOk e → WireOk (e.shutdownAll ns) := by
  induction ns with
  | nil => intro e h; exact h
  | cons n t ih => intro e h; exact ih (wireOk_shutdown h n)

/-- a guarded send: the wire stays well-formed and no flag changes -/
theorem wireOk_send {e e' : Env} {n : Nat} {o : SOut} (h : e.send n o = .ok e') (hn : cmdNode o = some n)
    (hne : ∀ m, o ≠ SOut.shutdown m) (hsd : e.flags.shuttingDown n = false) (hw : WireOk e) : WireOk e' ∧ e'.flags = e.flags := by
  unfold Env.send at h
  split at h
  · simp only [Except.ok.injEq] at h; subst h; exact ⟨hw, rfl⟩
  · simp only [Except.ok.injEq] at h; subst h
    exact ⟨emit_wire hn hne hsd hw.1 hw.2, rfl⟩

theorem wireOk_reports {e : Env} {ds : List SOut} (hw : WireOk e) (hd : ∀ o ∈ ds, cmdNode o = none) :
    WireOk { e with outs := e.outs ++ ds } := by
  induction ds generalizing e with
  | nil => simpa using hw
  | cons d t ih =>
    have h1 : WireOk { e with outs := e.outs ++ [d] } := by
      refine ⟨noAfter_append_single hw.1 ?_, ?_⟩
      · intro n hn; rw [hd d (by simp)] at hn; cases hn
      · intro n hm
        simp only [List.mem_append, List.mem_singleton] at hm
        rcases hm with hm | hm
        · exact hw.2 n hm
        · have := hd d (by simp); rw [← hm] at this; simp [cmdNode] at this
    have := ih (e := { e with outs := e.outs ++ [d] }) h1 (fun o ho => hd o (by simp [ho]))
    simpa [List.append_assoc] using this

namespace Each

variable {τ : Type} [DecidableEq τ]

theorem afterSend_wireOk {e : Env} (n : Nat) {o : SOut} (hn : cmdNode o = some n) (hne : ∀ m, o ≠ SOut.shutdown m) (hw : WireOk e) :
    WireOk (afterSend e n o) := by
  unfold afterSend
  split
  · exact hw
  · rename_i hsd
    split
    · exact hw
    · exact emit_wire hn hne (by simpa using hsd) hw.1 hw.2

theorem takeOver_wireOk (spec : Nat → Nat) {n : Nat} {c : List τ} (l : AList Nat (List Nat)) :
    ∀ {s s' : State τ} {e e' : Env}, takeOver spec s e n c l = .ok (s', e') → WireOk e → WireOk e' := by
  induction l with
  | nil =>
    intro s s' e e' h hw
    simp only [takeOver, nothingToTakeOver, Except.ok.injEq, Prod.mk.injEq] at h
    obtain ⟨_, rfl⟩ := h
    exact wireOk_shutdown hw n
  | cons p rest ih =>
    intro s s' e e' h hw
    obtain ⟨dead, pend⟩ := p
    simp only [takeOver] at h
    split at h
    · obtain ⟨deadCol, _, h⟩ := bind_ok.1 h
      split at h
      · simp only [nothingToTakeOver, Except.ok.injEq, Prod.mk.injEq] at h
        obtain ⟨_, rfl⟩ := h
        exact wireOk_shutdown hw n
      · simp only [Except.ok.injEq, Prod.mk.injEq] at h
        obtain ⟨_, rfl⟩ := h
        exact hw
    · exact ih h hw

theorem scheduleLoop_wireOk (l : List Nat) : ∀ {s s' : State τ} {e e' : Env}, scheduleLoop s e l = .ok (s', e') →
    WireOk e → WireOk e' := by
  induction l with
  | nil =>
    intro s s' e e' h hw
    simp only [scheduleLoop, Except.ok.injEq, Prod.mk.injEq] at h
    obtain ⟨_, rfl⟩ := h; exact hw
  | cons n t ih =>
    intro s s' e e' h hw
    by_cases hst : s.started.contains n = true
    · rw [scheduleLoop] at h
      simp only [hst, if_true] at h
      exact ih h hw
    · have hst' : s.started.contains n = false := by simpa using hst
      by_cases hcc : s.node2collection.contains n = true
      · cases hget : s.node2pending.get n with
        | error err =>
          rw [scheduleLoop] at h
          have hnm : n ∉ s.started := by simpa using hst'
          simp [hnm, hcc, hget, bind, Except.bind] at h
        | ok book =>
          rw [scheduleLoop_cons s e n t book hst' hcc hget] at h
          split at h
          · split at h
            · exact ih h (wireOk_shutdown (afterSend_wireOk n rfl (by intro m; simp) hw) n)
            · cases h
          · exact ih h (afterSend_wireOk n rfl (by intro m; simp) hw)
      · rw [scheduleLoop] at h
        simp only [hst', Bool.false_eq_true, if_false, hcc, Bool.not_false, if_true] at h
        exact ih h hw

theorem step_wireOk (spec : Nat → Nat) {s s' : State τ} {e e' : Env} {op : SOp τ} {r : Option τ}
    (h : step spec s e op = .ok (s', e', r)) (hw : WireOk e) : WireOk e' := by
  cases op with
  | addNode n =>
    simp only [step] at h
    obtain ⟨s1, _, h2⟩ := map_ok.1 h
    simp at h2; obtain ⟨_, rfl, _⟩ := h2; exact hw
  | addNodeCollection n c =>
    simp only [step] at h
    obtain ⟨⟨s1, e1⟩, h1, h2⟩ := map_ok.1 h
    simp at h2; obtain ⟨_, rfl, _⟩ := h2
    unfold addNodeCollection at h1
    split at h1
    · cases h1
    · split at h1
      · simp only [Except.ok.injEq, Prod.mk.injEq] at h1; obtain ⟨_, rfl⟩ := h1; exact hw
      · exact takeOver_wireOk spec _ h1 hw
  | schedule =>
    simp only [step] at h
    obtain ⟨⟨s1, e1⟩, h1, h2⟩ := map_ok.1 h
    simp at h2; obtain ⟨_, rfl, _⟩ := h2
    unfold schedule at h1
    split at h1
    · cases h1
    · exact scheduleLoop_wireOk _ h1 hw
  | markComplete n i slow =>
    simp only [step] at h
    obtain ⟨s1, _, h2⟩ := map_ok.1 h
    simp at h2; obtain ⟨_, rfl, _⟩ := h2; exact hw
  | markPending t => simp [step] at h
  | removePending n is => simp [step] at h
  | removeNode n =>
    simp only [step] at h
    obtain ⟨p, _, h2⟩ := map_ok.1 h
    simp at h2; obtain ⟨_, rfl, _⟩ := h2; exact hw

end Each

namespace WorkSteal

variable {τ : Type} [DecidableEq τ]

omit [DecidableEq τ] in
theorem sendTests_wire {s s' : State τ} {e e' : Env} {n num : Nat} (h : sendTests s e n num = .ok (s', e'))
    (hsd : e.flags.shuttingDown n = false) (hw : WireOk e) : WireOk e' ∧ e'.flags = e.flags := by
  unfold sendTests at h
  simp only at h
  split at h
  · simp only [Except.ok.injEq, Prod.mk.injEq] at h; obtain ⟨_, rfl⟩ := h; exact ⟨hw, rfl⟩
  · obtain ⟨book, _, h⟩ := bind_ok.1 h
    obtain ⟨e1, he1, h⟩ := bind_ok.1 h
    simp only [Except.ok.injEq, Prod.mk.injEq] at h
    obtain ⟨_, rfl⟩ := h
    exact wireOk_send he1 rfl (by intro m; simp) hsd hw

omit [DecidableEq τ] in
theorem distribute_wire (l : List Nat) : ∀ {s s' : State τ} {e e' : Env}, distribute s e l = .ok (s', e') →
    (∀ n ∈ l, e.flags.shuttingDown n = false) → WireOk e → WireOk e' ∧ e'.flags = e.flags := by
  induction l with
  | nil =>
    intro s s' e e' h _ hw
    simp only [distribute, Except.ok.injEq, Prod.mk.injEq] at h
    obtain ⟨_, rfl⟩ := h; exact ⟨hw, rfl⟩
  | cons n t ih =>
    intro s s' e e' h hl hw
    simp only [distribute] at h
    obtain ⟨⟨s1, e1⟩, h1, h2⟩ := bind_ok.1 h
    obtain ⟨w1, f1⟩ := sendTests_wire h1 (hl n (by simp)) hw
    obtain ⟨w2, f2⟩ := ih h2 (by intro m hm; rw [f1]; exact hl m (by simp [hm])) w1
    exact ⟨w2, f2.trans f1⟩

omit [DecidableEq τ] in
theorem mem_nodesUp {s : State τ} {e : Env} {p : Nat × List Nat} (h : p ∈ nodesUp s e) : e.flags.shuttingDown p.1 = false := by
  unfold nodesUp at h
  have := (List.mem_filter.1 h).2
  simpa using this

omit [DecidableEq τ] in
theorem mem_idleOf {up : AList Nat (List Nat)} {n : Nat} (h : n ∈ idleOf up) : ∃ b, (n, b) ∈ up := by
  unfold idleOf at h
  obtain ⟨p, hp, rfl⟩ := List.mem_map.1 h
  exact ⟨p.2, (List.mem_filter.1 hp).1⟩

theorem maxBy_mem : ∀ {up : AList Nat (List Nat)} {q : Nat × List Nat}, maxBy up = some q → q ∈ up := by
  intro up
  induction up with
  | nil => intro q h; simp [maxBy] at h
  | cons p t ih =>
    intro q h
    simp only [maxBy] at h
    split at h
    · simp only [Option.some.injEq] at h; subst h; simp
    · rename_i q' hq'
      split at h
      · simp only [Option.some.injEq] at h; subst h; exact List.mem_cons_of_mem _ (ih hq')
      · simp only [Option.some.injEq] at h; subst h; simp

omit [DecidableEq τ] in
theorem stealOrShutdown_wire {s s' : State τ} {e e' : Env} {up : AList Nat (List Nat)} {idle : List Nat}
    (h : stealOrShutdown s e up idle = .ok (s', e')) (hup : ∀ p ∈ up, e.flags.shuttingDown p.1 = false) (hw : WireOk e) : WireOk e' := by
  unfold stealOrShutdown at h
  split at h
  · simp only [Except.ok.injEq, Prod.mk.injEq] at h; obtain ⟨_, rfl⟩ := h; exact hw
  · split at h
    · simp only [Except.ok.injEq, Prod.mk.injEq] at h; obtain ⟨_, rfl⟩ := h
      exact wireOk_shutdownAll _ hw
    · rename_i victim book hmax
      simp only at h
      split at h
      · simp only [Except.ok.injEq, Prod.mk.injEq] at h; obtain ⟨_, rfl⟩ := h
        exact wireOk_shutdownAll _ hw
      · obtain ⟨e2, he2, h⟩ := bind_ok.1 h
        simp only [Except.ok.injEq, Prod.mk.injEq] at h; obtain ⟨_, rfl⟩ := h
        exact (wireOk_send he2 rfl (by intro m; simp) (hup _ (maxBy_mem hmax)) hw).1

omit [DecidableEq τ] in
theorem checkSchedule_wire {s s' : State τ} {e e' : Env} (h : checkSchedule s e = .ok (s', e')) (hw : WireOk e) : WireOk e' := by
  unfold checkSchedule at h
  split at h
  · simp only [Except.ok.injEq, Prod.mk.injEq] at h; obtain ⟨_, rfl⟩ := h; exact hw
  · simp only at h
    split at h
    · simp only [Except.ok.injEq, Prod.mk.injEq] at h; obtain ⟨_, rfl⟩ := h; exact hw
    · split at h
      · exact stealOrShutdown_wire h (fun p hp => mem_nodesUp hp) hw
      · obtain ⟨r, hr, h⟩ := bind_ok.1 h
        have hidle : ∀ n ∈ idleOf (nodesUp s e), e.flags.shuttingDown n = false := by
          intro n hn
          obtain ⟨b, hb⟩ := mem_idleOf hn
          exact mem_nodesUp hb
        obtain ⟨w1, f1⟩ := distribute_wire _ (show distribute s e _ = .ok (r.1, r.2) from hr) hidle hw
        split at h
        · simp only [Except.ok.injEq, Prod.mk.injEq] at h; obtain ⟨_, rfl⟩ := h; exact w1
        · refine stealOrShutdown_wire h ?_ w1
          intro p hp
          rw [f1]
          exact mem_nodesUp hp

theorem step_wireOk {s s' : State τ} {e e' : Env} {op : SOp τ} {r : Option τ} (h : step s e op = .ok (s', e', r))
    (hw : WireOk e) : WireOk e' := by
  cases op with
  | addNode n =>
    simp only [step] at h
    obtain ⟨s1, _, h2⟩ := map_ok.1 h
    simp at h2; obtain ⟨_, rfl, _⟩ := h2; exact hw
  | addNodeCollection n c =>
    simp only [step] at h
    obtain ⟨s1, _, h2⟩ := map_ok.1 h
    simp at h2; obtain ⟨_, rfl, _⟩ := h2; exact hw
  | schedule =>
    simp only [step] at h
    obtain ⟨⟨s1, e1⟩, h1, h2⟩ := map_ok.1 h
    simp at h2; obtain ⟨_, rfl, _⟩ := h2
    unfold schedule at h1
    split at h1
    · cases h1
    · split at h1
      · exact checkSchedule_wire h1 hw
      · split at h1
        · cases h1
        · rename_i first col rest _
          simp only at h1
          have hd : WireOk { e with outs := e.outs ++ collectionDiffs first col rest } := by
            apply wireOk_reports hw
            intro o ho
            unfold collectionDiffs at ho
            obtain ⟨p, _, rfl⟩ := List.mem_map.1 ho
            rfl
          split at h1
          · simp only [Except.ok.injEq, Prod.mk.injEq] at h1; obtain ⟨_, rfl⟩ := h1; exact hd
          · split at h1
            · simp only [Except.ok.injEq, Prod.mk.injEq] at h1; obtain ⟨_, rfl⟩ := h1; exact hd
            · exact checkSchedule_wire h1 hd
  | markComplete n i slow =>
    simp only [step] at h
    obtain ⟨⟨s1, e1⟩, h1, h2⟩ := map_ok.1 h
    simp at h2; obtain ⟨_, rfl, _⟩ := h2
    unfold markComplete at h1
    obtain ⟨book, _, h1⟩ := bind_ok.1 h1
    obtain ⟨book', _, h1⟩ := bind_ok.1 h1
    exact checkSchedule_wire h1 hw
  | markPending t =>
    simp only [step] at h
    obtain ⟨⟨s1, e1⟩, h1, h2⟩ := map_ok.1 h
    simp at h2; obtain ⟨_, rfl, _⟩ := h2
    unfold markPending at h1
    split at h1
    · cases h1
    · obtain ⟨idx, _, h1⟩ := bind_ok.1 h1
      exact checkSchedule_wire h1 hw
  | removePending n is =>
    simp only [step] at h
    obtain ⟨⟨s1, e1⟩, h1, h2⟩ := map_ok.1 h
    simp at h2; obtain ⟨_, rfl, _⟩ := h2
    unfold removePending at h1
    split at h1
    · cases h1
    · obtain ⟨book, _, h1⟩ := bind_ok.1 h1
      exact checkSchedule_wire h1 hw
  | removeNode n =>
    simp only [step] at h
    unfold removeNode at h
    obtain ⟨p, _, h⟩ := bind_ok.1 h
    obtain ⟨cr, _, h⟩ := bind_ok.1 h
    obtain ⟨r2, h3, h⟩ := bind_ok.1 h
    simp only [Except.ok.injEq, Prod.mk.injEq] at h
    obtain ⟨_, rfl, _⟩ := h
    exact checkSchedule_wire (show checkSchedule _ e = .ok (r2.1, r2.2) from h3) hw

end WorkSteal
namespace LoadScope

variable {κ τ : Type} [DecidableEq κ] [DecidableEq τ]

theorem assignWorkUnit_wire {s s' : State κ τ} {e e' : Env} {n : Nat} (h : assignWorkUnit s e n = .ok (s', e'))
    (hsd : e.flags.shuttingDown n = false) (hw : WireOk e) : WireOk e' ∧ e'.flags = e.flags := by
  unfold assignWorkUnit at h
  split at h
  · cases h
  · simp only at h
    obtain ⟨col, _, h⟩ := bind_ok.1 h
    obtain ⟨is, _, h⟩ := bind_ok.1 h
    obtain ⟨e1, he1, h⟩ := bind_ok.1 h
    simp only [Except.ok.injEq, Prod.mk.injEq] at h
    obtain ⟨_, rfl⟩ := h
    exact wireOk_send he1 rfl (by intro m; simp) hsd hw

theorem topUp_wire {n : Nat} (fuel : Nat) : ∀ {s s' : State κ τ} {e e' : Env}, topUp s e n fuel = .ok (s', e') →
    e.flags.shuttingDown n = false → WireOk e → WireOk e' ∧ e'.flags = e.flags := by
  induction fuel with
  | zero =>
    intro s s' e e' h _ hw
    simp only [topUp, Except.ok.injEq, Prod.mk.injEq] at h
    obtain ⟨_, rfl⟩ := h; exact ⟨hw, rfl⟩
  | succ fuel ih =>
    intro s s' e e' h hsd hw
    simp only [topUp] at h
    split at h
    · simp only [Except.ok.injEq, Prod.mk.injEq] at h; obtain ⟨_, rfl⟩ := h; exact ⟨hw, rfl⟩
    · obtain ⟨w, _, h⟩ := bind_ok.1 h
      split at h
      · obtain ⟨⟨s1, e1⟩, h1, h⟩ := bind_ok.1 h
        obtain ⟨w1, f1⟩ := assignWorkUnit_wire h1 hsd hw
        obtain ⟨w2, f2⟩ := ih h (by rw [f1]; exact hsd) w1
        exact ⟨w2, f2.trans f1⟩
      · simp only [Except.ok.injEq, Prod.mk.injEq] at h; obtain ⟨_, rfl⟩ := h; exact ⟨hw, rfl⟩

theorem reschedule_wire {s s' : State κ τ} {e e' : Env} {n : Nat} (h : reschedule s e n = .ok (s', e'))
    (hw : WireOk e) : WireOk e' := by
  unfold reschedule at h
  split at h
  · simp only [Except.ok.injEq, Prod.mk.injEq] at h; obtain ⟨_, rfl⟩ := h; exact hw
  · rename_i hsd
    have hsd' : e.flags.shuttingDown n = false := by simpa using hsd
    split at h
    · simp only [Except.ok.injEq, Prod.mk.injEq] at h; obtain ⟨_, rfl⟩ := h; exact hw
    · split at h
      · simp only [Except.ok.injEq, Prod.mk.injEq] at h; obtain ⟨_, rfl⟩ := h
        exact wireOk_shutdown hw n
      · obtain ⟨w, _, h⟩ := bind_ok.1 h
        split at h
        · simp only [Except.ok.injEq, Prod.mk.injEq] at h; obtain ⟨_, rfl⟩ := h; exact hw
        · obtain ⟨⟨s1, e1⟩, h1, h⟩ := bind_ok.1 h
          obtain ⟨w1, f1⟩ := assignWorkUnit_wire h1 hsd' hw
          exact (topUp_wire _ h (by rw [f1]; exact hsd') w1).1

theorem rescheduleAll_wire (l : List Nat) : ∀ {s s' : State κ τ} {e e' : Env}, rescheduleAll s e l = .ok (s', e') →
    WireOk e → WireOk e' := by
  induction l with
  | nil =>
    intro s s' e e' h hw
    simp only [rescheduleAll, Except.ok.injEq, Prod.mk.injEq] at h
    obtain ⟨_, rfl⟩ := h; exact hw
  | cons n t ih =>
    intro s s' e e' h hw
    simp only [rescheduleAll] at h
    obtain ⟨⟨s1, e1⟩, h1, h2⟩ := bind_ok.1 h
    exact ih h2 (reschedule_wire h1 hw)

theorem assignAll_wire (l : List Nat) : ∀ {s s' : State κ τ} {e e' : Env}, assignAll s e l = .ok (s', e') →
    WireOk e → WireOk e' := by
  induction l with
  | nil =>
    intro s s' e e' h hw
    simp only [assignAll, Except.ok.injEq, Prod.mk.injEq] at h
    obtain ⟨_, rfl⟩ := h; exact hw
  | cons n t ih =>
    intro s s' e e' h hw
    simp only [assignAll] at h
    split at h
    · exact ih h hw
    · rename_i hcond
      have hsd : e.flags.shuttingDown n = false := by
        simp only [Bool.or_eq_true, Bool.not_eq_eq_eq_not, Bool.not_true, not_or] at hcond
        simpa using hcond.2
      obtain ⟨⟨s1, e1⟩, h1, h2⟩ := bind_ok.1 h
      exact ih h2 (assignWorkUnit_wire h1 hsd hw).1

omit [DecidableEq κ] [DecidableEq τ] in
theorem dropExtra_wire (k : Nat) : ∀ {s s' : State κ τ} {e e' : Env}, dropExtra s e k = .ok (s', e') →
    WireOk e → WireOk e' := by
  induction k with
  | zero =>
    intro s s' e e' h hw
    simp only [dropExtra, Except.ok.injEq, Prod.mk.injEq] at h
    obtain ⟨_, rfl⟩ := h; exact hw
  | succ k ih =>
    intro s s' e e' h hw
    simp only [dropExtra] at h
    split at h
    · cases h
    · exact ih h (wireOk_shutdown hw _)

theorem step_wireOk (split : τ → κ) {s s' : State κ τ} {e e' : Env} {op : SOp τ} {r : Option τ}
    (h : step split s e op = .ok (s', e', r)) (hw : WireOk e) : WireOk e' := by
  cases op with
  | addNode n =>
    simp only [step] at h
    obtain ⟨s1, _, h2⟩ := map_ok.1 h
    simp at h2; obtain ⟨_, rfl, _⟩ := h2; exact hw
  | addNodeCollection n c =>
    simp only [step] at h
    obtain ⟨s1, _, h2⟩ := map_ok.1 h
    simp at h2; obtain ⟨_, rfl, _⟩ := h2; exact hw
  | schedule =>
    simp only [step] at h
    obtain ⟨⟨s1, e1⟩, h1, h2⟩ := map_ok.1 h
    simp at h2; obtain ⟨_, rfl, _⟩ := h2
    unfold schedule at h1
    split at h1
    · cases h1
    · split at h1
      · exact rescheduleAll_wire _ h1 hw
      · split at h1
        · cases h1
        · rename_i first col rest _
          simp only at h1
          have hd : WireOk { e with outs := e.outs ++ collectionDiffs first col rest } := by
            apply wireOk_reports hw
            intro o ho
            unfold collectionDiffs at ho
            obtain ⟨p, _, rfl⟩ := List.mem_map.1 ho
            rfl
          split at h1
          · simp only [Except.ok.injEq, Prod.mk.injEq] at h1; obtain ⟨_, rfl⟩ := h1; exact hd
          · split at h1
            · simp only [Except.ok.injEq, Prod.mk.injEq] at h1; obtain ⟨_, rfl⟩ := h1; exact hd
            · obtain ⟨⟨s3, e3⟩, h3, h1⟩ := bind_ok.1 h1
              obtain ⟨⟨s4, e4⟩, h4, h1⟩ := bind_ok.1 h1
              obtain ⟨⟨s5, e5⟩, h5, h1⟩ := bind_ok.1 h1
              have a3 := dropExtra_wire _ h3 hd
              have a4 := assignAll_wire _ h4 a3
              have a5 := rescheduleAll_wire _ h5 a4
              split at h1
              · simp only [Except.ok.injEq, Prod.mk.injEq] at h1; obtain ⟨_, rfl⟩ := h1
                exact wireOk_shutdownAll _ a5
              · simp only [Except.ok.injEq, Prod.mk.injEq] at h1; obtain ⟨_, rfl⟩ := h1
                exact a5
  | markComplete n i slow =>
    simp only [step] at h
    obtain ⟨⟨s1, e1⟩, h1, h2⟩ := map_ok.1 h
    simp at h2; obtain ⟨_, rfl, _⟩ := h2
    unfold markComplete at h1
    obtain ⟨col, _, h1⟩ := bind_ok.1 h1
    split at h1
    · cases h1
    · obtain ⟨w, _, h1⟩ := bind_ok.1 h1
      obtain ⟨wu, _, h1⟩ := bind_ok.1 h1
      exact reschedule_wire h1 hw
  | markPending t => simp [step] at h
  | removePending n is => simp [step] at h
  | removeNode n =>
    simp only [step] at h
    unfold removeNode at h
    obtain ⟨⟨workload, asg⟩, _, h⟩ := bind_ok.1 h
    simp only at h
    split at h
    · simp only [Except.ok.injEq, Prod.mk.injEq] at h; obtain ⟨_, rfl, _⟩ := h; exact hw
    · split at h
      · cases h
      · obtain ⟨⟨s3, e3⟩, h3, h⟩ := bind_ok.1 h
        simp only [Except.ok.injEq, Prod.mk.injEq] at h
        obtain ⟨_, rfl, _⟩ := h
        exact rescheduleAll_wire _ h3 hw

end LoadScope

/-- the schedulers that look at `node.shutting_down` before every send: all but `LoadScheduling` -/
def Sched.Any.guarded : Sched.Any → Prop
  | .load _ => False
  | .nosched => False
  | _ => True

/-- **every call of the each, worksteal and loadscope/loadfile/loadgroup schedulers keeps the wire well-formed** -/
theorem Sched.any_step_wireOk (specs : AList Nat Nat) {a a' : Sched.Any} {e e' : Env} {op : SOp String} {r : Option String}
    (hg : a.guarded) (h : Sched.Any.step specs a e op = .ok (a', e', r)) (hw : WireOk e) : WireOk e' ∧ a'.guarded := by
  cases a with
  | nosched => exact hg.elim
  | load s => exact hg.elim
  | ws s =>
    simp only [Sched.Any.step] at h
    obtain ⟨x, hx, h2⟩ := map_ok.1 h
    simp only [Prod.mk.injEq] at h2
    obtain ⟨rfl, rfl, _⟩ := h2
    exact ⟨WorkSteal.step_wireOk (show WorkSteal.step s e op = .ok (x.1, x.2.1, x.2.2) from hx) hw, trivial⟩
  | scope m s =>
    simp only [Sched.Any.step] at h
    obtain ⟨x, hx, h2⟩ := map_ok.1 h
    simp only [Prod.mk.injEq] at h2
    obtain ⟨rfl, rfl, _⟩ := h2
    exact ⟨LoadScope.step_wireOk _ (show LoadScope.step (Sched.splitOf m) s e op = .ok (x.1, x.2.1, x.2.2) from hx) hw, trivial⟩
  | each s =>
    simp only [Sched.Any.step] at h
    obtain ⟨x, hx, h2⟩ := map_ok.1 h
    simp only [Prod.mk.injEq] at h2
    obtain ⟨rfl, rfl, _⟩ := h2
    exact ⟨Each.step_wireOk _ (show Each.step _ s e op = .ok (x.1, x.2.1, x.2.2) from hx) hw, trivial⟩

end Xdist
