import XdistProofs.Sched.LoadAcc
/-!
  The two-tests condition for an arbitrary set `G` of nodes (instead of the registered ones), and the bookkeeping facts
  `P0`, as invariants of every scheduler call of `LoadScheduling`.
-/
namespace Xdist.Load
open Xdist

variable {τ : Type} [DecidableEq τ]

/-- bookkeeping facts of the load scheduler -/
structure P0 (s : State τ) : Prop where
  nocol : s.collection = none → s.pending = []
  compl : s.collection ≠ none → collectionIsCompleted s = true
  nodup : (AList.keys s.node2pending).Nodup

/-- the two-tests condition for the nodes of `G` -/
def GQ (G : Nat → Prop) (s : State τ) (e : Env) : Prop := ∀ n, G n → Qn s e n

theorem P0.ofQInv {s : State τ} {e : Env} (h : QInv s e) : P0 s := ⟨h.nocol, h.compl, h.nodup⟩

theorem Mono.p0 {s s' : State τ} {e e' : Env} (m : Mono s e s' e') (h : P0 s) (hp : s.collection = none → s'.pending = []) : P0 s' := by
  refine ⟨?_, ?_, by rw [m.keys]; exact h.nodup⟩
  · intro hc; rw [m.static.2.1] at hc; exact hp hc
  · intro hc; rw [m.static.2.1] at hc; rw [completed_static m.static.1 m.static.2.2]; exact h.compl hc

theorem Mono.p0' {s s' : State τ} {e e' : Env} (m : Mono s e s' e') (h : P0 s) (hp : s.collection = none → s.pending = []) : P0 s' := by
  refine m.p0 h ?_
  intro hc
  obtain ⟨k, hk⟩ := m.pending
  rw [hk, hp hc]; simp

theorem Qn_mono_state {s s' : State τ} {e : Env} {m : Nat} (h1 : AList.lookup s'.node2pending m = AList.lookup s.node2pending m)
    (h2 : s'.pending = s.pending) (h : Qn s e m) : Qn s' e m := by
  intro book hb
  rw [h1] at hb
  rcases h book hb with h | h | h
  · exact Or.inl h
  · exact Or.inr (Or.inl h)
  · exact Or.inr (Or.inr (by rw [h2]; exact h))

/-- `schedule()` (called when the collection is complete) leaves every node with two tests, the shutdown signal, or nothing
    left to hand out -/
theorem schedule_all {s s' : State τ} {e e' : Env} (h0 : P0 s)
    (h : schedule s e = .ok (s', e')) : (∀ n, Qn s' e' n) ∧ P0 s' := by
  have hc : collectionIsCompleted s = true := by
    cases hh : collectionIsCompleted s with
    | true => rfl
    | false => unfold schedule at h; simp [hh] at h
  unfold schedule at h
  simp only [hc, Bool.not_true, Bool.false_eq_true, ↓reduceIte] at h
  split at h
  · rename_i col hcol
    obtain ⟨i1, i2⟩ := checkAll_keys_Q h
    exact ⟨i1, i2.p0' h0 (fun hh => by rw [hcol] at hh; cases hh)⟩
  · rename_i hcol
    split at h
    · simp at h
    · unfold scheduleFirst at h
      simp only at h
      split at h
      · simp only [Except.ok.injEq, Prod.mk.injEq] at h
        obtain ⟨rfl, rfl⟩ := h
        exact ⟨fun n => Qn_of_pending_nil (h0.nocol hcol) n, h0⟩
      · split at h
        · rename_i hemp
          simp only [Except.ok.injEq, Prod.mk.injEq] at h
          obtain ⟨rfl, rfl⟩ := h
          have hce := List.isEmpty_iff.1 hemp
          subst hce
          exact ⟨fun n => Qn_of_pending_nil (by simp) n, ⟨by simp, fun _ => hc, h0.nodup⟩⟩
        · obtain ⟨i1, i2⟩ := initialSend_Q' (by simp) h
          refine ⟨i1, ⟨?_, ?_, by rw [i2.keys]; exact h0.nodup⟩⟩
          · intro hh; rw [i2.static.2.1] at hh; cases hh
          · intro _; rw [completed_static i2.static.1 i2.static.2.2]; exact hc

/-- **every scheduler call keeps the bookkeeping facts and the two-tests condition of every node of `G`** (a node that
    registers must not be in `G`) -/
theorem step_GQ {G : Nat → Prop} {s s' : State τ} {e e' : Env} {op : SOp τ} {r : Option τ} (h0 : P0 s) (hg : GQ G s e)
    (hadd : ∀ n, op = .addNode n → ¬ G n)
    (h : step s e op = .ok (s', e', r)) : P0 s' ∧ GQ G s' e' := by
  cases op with
  | addNode n =>
    simp only [step] at h
    obtain ⟨a, ha, hb⟩ := map_ok.1 h
    simp only [Prod.mk.injEq] at hb
    obtain ⟨rfl, rfl, _⟩ := hb
    unfold addNode at ha
    split at ha
    · simp at ha
    · rename_i hc
      simp only [Except.ok.injEq] at ha; subst ha
      have hl : AList.lookup s.node2pending n = none := by
        simp only [AList.contains] at hc
        cases hh : AList.lookup s.node2pending n with
        | none => rfl
        | some b => rw [hh] at hc; simp at hc
      refine ⟨⟨h0.nocol, h0.compl, ?_⟩, ?_⟩
      · simp only
        rw [AList.keys_set_of_not_mem _ _ _ hl]
        refine List.nodup_append.2 ⟨h0.nodup, by simp, ?_⟩
        intro a ha b hb
        simp only [List.mem_singleton] at hb
        subst hb
        intro hab; subst hab
        have := (AList.lookup_isSome_iff_mem_keys s.node2pending a).2 ha
        rw [hl] at this; cases this
      · intro m hm
        have hmn : m ≠ n := fun hh => hadd n rfl (hh ▸ hm)
        exact Qn_mono_state (AList.lookup_set_other _ _ _ _ hmn) rfl (hg m hm)
  | addNodeCollection n c =>
    simp only [step] at h
    obtain ⟨a, ha, hb⟩ := map_ok.1 h
    simp only [Prod.mk.injEq] at hb
    obtain ⟨rfl, rfl, _⟩ := hb
    have shape : a = s ∨ a = { s with node2collection := s.node2collection.set n c } := by
      unfold addNodeCollection at ha
      split at ha
      · simp at ha
      · split at ha
        · split at ha
          · simp at ha
          · split at ha
            · simp at ha
            · split at ha
              · simp only [Except.ok.injEq] at ha; exact Or.inl ha.symm
              · simp only [Except.ok.injEq] at ha; exact Or.inr ha.symm
        · simp only [Except.ok.injEq] at ha; exact Or.inr ha.symm
    rcases shape with rfl | rfl
    · exact ⟨h0, hg⟩
    · refine ⟨⟨h0.nocol, ?_, h0.nodup⟩, fun m hm => Qn_mono_state rfl rfl (hg m hm)⟩
      intro hcol
      have := h0.compl hcol
      unfold collectionIsCompleted at this ⊢
      simp only [decide_eq_true_eq] at this ⊢
      exact Nat.le_trans this (length_le_set _ _ _)
  | schedule =>
    simp only [step] at h
    obtain ⟨a, ha, hb⟩ := map_ok.1 h
    simp only [Prod.mk.injEq] at hb
    obtain ⟨rfl, rfl, _⟩ := hb
    obtain ⟨i1, i2⟩ := schedule_all h0 (show schedule s e = .ok (a.1, a.2) by rw [ha])
    exact ⟨i2, fun m _ => i1 m⟩
  | markComplete n i slow =>
    simp only [step] at h
    obtain ⟨a, ha, hb⟩ := map_ok.1 h
    simp only [Prod.mk.injEq] at hb
    obtain ⟨rfl, rfl, _⟩ := hb
    unfold markComplete at ha
    obtain ⟨book, hbk, h1⟩ := bind_ok.1 ha
    obtain ⟨book', _, h2⟩ := bind_ok.1 h1
    have hl := AList.get_eq_ok.1 hbk
    have f := checkSchedule_frame h2
    obtain ⟨q1, q2⟩ := checkSchedule_Q h2
    have hk : AList.keys (s.node2pending.set n book') = AList.keys s.node2pending :=
      AList.keys_set_of_mem _ _ _ (by rw [hl]; rfl)
    refine ⟨⟨?_, ?_, by rw [f.keys]; simp only; rw [hk]; exact h0.nodup⟩, ?_⟩
    · intro hc
      rw [f.static.2.1] at hc
      obtain ⟨k, hk'⟩ := f.pending
      rw [hk']; simp only; rw [h0.nocol hc]; simp
    · intro hc
      rw [f.static.2.1] at hc
      rw [completed_static f.static.1 f.static.2.2.1]
      exact h0.compl hc
    · intro m hm
      by_cases hmn : m = n
      · subst hmn; exact q1
      · exact q2 m (Qn_mono_state (AList.lookup_set_other _ _ _ _ hmn) rfl (hg m hm)) hmn
  | markPending t =>
    simp only [step] at h
    obtain ⟨a, ha, hb⟩ := map_ok.1 h
    simp only [Prod.mk.injEq] at hb
    obtain ⟨rfl, rfl, _⟩ := hb
    unfold markPending at ha
    split at ha
    · simp at ha
    · rename_i col hcol
      obtain ⟨idx, _, h1⟩ := bind_ok.1 ha
      obtain ⟨i1, i2⟩ := checkAll_keys_Q (s := { s with pending := idx :: s.pending }) h1
      refine ⟨i2.p0 ⟨fun hh => by simp [hcol] at hh, fun _ => h0.compl (by simp [hcol]), h0.nodup⟩ (fun hh => by simp [hcol] at hh),
        fun m _ => i1 m⟩
  | removePending n is => simp [step] at h
  | removeNode n =>
    simp only [step] at h
    unfold removeNode at h
    obtain ⟨⟨book, n2p⟩, hp, h1⟩ := bind_ok.1 h
    obtain ⟨hl, rfl⟩ := AList.pop_eq_ok.1 hp
    simp only at h1
    have hnd : (AList.keys (AList.erase s.node2pending n)).Nodup := AList.nodup_keys_erase _ _ h0.nodup
    split at h1
    · simp only [Except.ok.injEq, Prod.mk.injEq] at h1
      obtain ⟨rfl, rfl, _⟩ := h1
      refine ⟨⟨h0.nocol, h0.compl, hnd⟩, ?_⟩
      intro m hm b hb
      simp only at hb
      by_cases hmn : m = n
      · subst hmn
        rw [AList.lookup_erase_same _ _ h0.nodup] at hb; cases hb
      · rw [AList.lookup_erase_other _ _ _ hmn] at hb
        exact hg m hm b hb
    · split at h1
      · simp at h1
      · rename_i col hcol
        split at h1
        · simp at h1
        · obtain ⟨⟨s3, e3⟩, hca, h2⟩ := bind_ok.1 h1
          simp only [Except.ok.injEq, Prod.mk.injEq] at h2
          obtain ⟨rfl, rfl, _⟩ := h2
          obtain ⟨i1, i2⟩ := checkAll_keys_Q hca
          refine ⟨i2.p0 ⟨fun hh => by simp [hcol] at hh, fun _ => h0.compl (by simp [hcol]), hnd⟩ (fun hh => by simp [hcol] at hh),
            fun m _ => i1 m⟩

theorem shutdown_GQ {G : Nat → Prop} {s : State τ} {e : Env} (n : Nat) (hg : GQ G s e) : GQ G s (e.shutdown n) :=
  fun m hm => Qn_env (fun k hk => Ctl.shutdown_flag_mono e n k hk) (hg m hm)

end Xdist.Load
