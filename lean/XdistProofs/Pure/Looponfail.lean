import XdistModel.Pure.Looponfail
import XdistProofs.Lemmas.AList
import XdistProofs.Lemmas.PyList
/-! The inner loop of `StatRecorder.check`, characterised as a comparison of two finite maps. -/
namespace Xdist.Looponfail
open Xdist Xdist.AList

theorem lookup_append_of_not_mem (d : AList Path Stat) (e : Path × Stat) (p : Path) :
    lookup (d ++ [e]) p = match lookup d p with | some v => some v | none => if e.1 = p then some e.2 else none := by
  induction d with
  | nil => simp [lookup]
  | cons a t ih =>
    obtain ⟨k, v⟩ := a
    simp only [List.cons_append, lookup]
    split
    · rfl
    · exact ih

theorem keys_append (d : AList Path Stat) (e : Path × Stat) : keys (d ++ [e]) = keys d ++ [e.1] := by
  simp [keys]

theorem contains_iff (d : AList Path Stat) (p : Path) : contains d p = true ↔ p ∈ keys d := by
  unfold contains
  exact lookup_isSome_iff_mem_keys d p

theorem lookup_none_iff (d : AList Path Stat) (p : Path) : lookup d p = none ↔ p ∉ keys d := by
  rw [← lookup_isSome_iff_mem_keys]
  cases lookup d p <;> simp

/-- What the fold computes, for a walk `l` all of whose entries agree with one stat function `f`. -/
structure Spec (l : List (Path × Stat)) (f : Path → Stat) (st : Loop) (res : Loop) : Prop where
  changed : res.changed = true ∨ res.old ≠ [] ↔
    st.changed = true ∨ ∃ p, p ∉ keys st.new ∧
      lookup st.old p ≠ (if p ∈ l.map Prod.fst then some (f p) else none)
  lookup : ∀ p, lookup res.new p =
    match lookup st.new p with
    | some v => some v
    | none => if p ∈ l.map Prod.fst then some (f p) else none
  nodup : (keys res.new).Nodup

theorem fold_spec (l : List (Path × Stat)) (f : Path → Stat) (hf : ∀ e ∈ l, e.2 = f e.1)
    (st : Loop) (hold : (keys st.old).Nodup) (hnew : (keys st.new).Nodup)
    (hdisj : ∀ p ∈ keys st.old, p ∉ keys st.new) :
    Spec l f st (l.foldl stepLoop st) := by
  induction l generalizing st with
  | nil =>
    refine ⟨?_, ?_, hnew⟩
    · simp only [List.foldl_nil, List.map_nil, List.not_mem_nil, ↓reduceIte]
      constructor
      · rintro (h | h)
        · exact Or.inl h
        · right
          cases ho : st.old with
          | nil => exact absurd ho h
          | cons a t =>
            refine ⟨a.1, hdisj a.1 (by simp [ho, keys]), ?_⟩
            simp [lookup]
      · rintro (h | ⟨p, _, hp⟩)
        · exact Or.inl h
        · right; intro hnil; rw [hnil] at hp; simp at hp
    · intro p; simp only [List.foldl_nil, List.map_nil, List.not_mem_nil, ↓reduceIte]
      cases lookup st.new p <;> rfl
  | cons e l ih =>
    have hf' : ∀ e' ∈ l, e'.2 = f e'.1 := fun e' h => hf e' (List.mem_cons_of_mem _ h)
    have he : e.2 = f e.1 := hf e (by simp)
    simp only [List.foldl_cons]
    by_cases hc : contains st.new e.1 = true
    · -- already visited: the state is unchanged
      have hstep : stepLoop st e = st := by simp [stepLoop, hc]
      rw [hstep]
      have hmem : e.1 ∈ keys st.new := (contains_iff _ _).1 hc
      obtain ⟨h1, h2, h3⟩ := ih hf' st hold hnew hdisj
      refine ⟨?_, ?_, h3⟩
      · rw [h1]
        apply or_congr Iff.rfl
        apply exists_congr
        intro p
        apply and_congr_right
        intro hp
        have hpe : p ≠ e.1 := by intro h; rw [h] at hp; exact hp hmem
        simp only [List.map_cons, List.mem_cons, hpe, false_or]
      · intro p
        rw [h2 p]
        cases hl : lookup st.new p with
        | some v => rfl
        | none =>
          have hpe : p ≠ e.1 := by
            intro h; rw [h] at hl; exact ((lookup_none_iff _ _).1 hl) hmem
          simp only [List.map_cons, List.mem_cons, hpe, false_or]
    · -- first visit of `e.1`
      have hnm : e.1 ∉ keys st.new := fun h => hc ((contains_iff _ _).2 h)
      have hstep : stepLoop st e =
          { changed := st.changed || differs (lookup st.old e.1) e.2,
            old := erase st.old e.1, new := st.new ++ [e] } := by
        simp [stepLoop, hc]
      rw [hstep]
      have hold' : (keys (erase st.old e.1)).Nodup := AList.nodup_keys_erase _ _ hold
      have hnew' : (keys (st.new ++ [e])).Nodup := by
        simp only [keys_append]
        refine List.nodup_append.2 ⟨hnew, by simp, ?_⟩
        intro a ha b hb
        simp at hb; subst hb
        intro hab; subst hab; exact hnm ha
      have hdisj' : ∀ p ∈ keys (erase st.old e.1), p ∉ keys (st.new ++ [e]) := by
        intro p hp
        simp only [keys_append, List.mem_append, List.mem_singleton, not_or]
        have hp' : p ∈ keys st.old := AList.mem_keys_of_mem_keys_erase _ _ _ hp
        refine ⟨hdisj p hp', ?_⟩
        intro hpe; subst hpe
        exact AList.not_mem_keys_erase_self _ _ hold hp
      obtain ⟨h1, h2, h3⟩ := ih hf' ⟨_, erase st.old e.1, st.new ++ [e]⟩ hold' hnew' hdisj'
      dsimp only at h1 h2 h3
      refine ⟨?_, ?_, h3⟩
      · rw [h1]
        have hch : differs (lookup st.old e.1) e.2 = true ↔ lookup st.old e.1 ≠ some (f e.1) := by
          rw [← he]
          cases lookup st.old e.1 with
          | none => simp [differs]
          | some o =>
            obtain ⟨a, b⟩ := o
            obtain ⟨c, d⟩ := e.2
            simp only [differs, bne_iff_ne, Bool.or_eq_true, decide_eq_true_eq, ne_eq, Option.some.injEq, Prod.mk.injEq,
              not_and]
            constructor
            · rintro (h | h) h1 <;> simp_all
            · intro h
              by_cases hac : a = c
              · exact Or.inr (h hac)
              · exact Or.inl hac
        constructor
        · rintro (h | ⟨p, hpn, hp⟩)
          · simp only [Bool.or_eq_true] at h
            rcases h with h | h
            · exact Or.inl h
            · right
              refine ⟨e.1, hnm, ?_⟩
              simp only [List.map_cons, List.mem_cons, true_or, ↓reduceIte]
              exact hch.1 h
          · right
            simp only [keys_append, List.mem_append, List.mem_singleton, not_or] at hpn
            refine ⟨p, hpn.1, ?_⟩
            rw [lookup_erase_other _ _ _ hpn.2] at hp
            simp only [List.map_cons, List.mem_cons, hpn.2, false_or]
            exact hp
        · rintro (h | ⟨p, hpn, hp⟩)
          · left; simp [h]
          · by_cases hpe : p = e.1
            · subst hpe
              left
              simp only [List.map_cons, List.mem_cons, true_or, ↓reduceIte] at hp
              simp only [Bool.or_eq_true]
              exact Or.inr (hch.2 hp)
            · right
              refine ⟨p, ?_, ?_⟩
              · simp only [keys_append, List.mem_append, List.mem_singleton, not_or]
                exact ⟨hpn, hpe⟩
              · rw [lookup_erase_other _ _ _ hpe]
                simp only [List.map_cons, List.mem_cons, hpe, false_or] at hp
                exact hp
      · intro p
        rw [h2 p]
        rw [lookup_append_of_not_mem]
        cases hl : lookup st.new p with
        | some v => rfl
        | none =>
          simp only
          by_cases hpe : e.1 = p
          · subst hpe; simp [he]
          · have : p ≠ e.1 := fun h => hpe h.symm
            simp only [hpe, ↓reduceIte, List.map_cons, List.mem_cons, this, false_or]

/-- entries of a walk over a file system with distinct paths carry the file system's stat -/
theorem visit_consistent (fs : FS) (hfs : (keys fs).Nodup) (roots : List Path) :
    ∀ e ∈ roots.flatMap (visit fs), lookup fs e.1 = some e.2 := by
  intro e he
  simp only [List.mem_flatMap, visit, List.mem_filter] at he
  obtain ⟨_, _, hmem, _⟩ := he
  exact AList.lookup_of_mem fs hfs e hmem

theorem mem_walk_iff (fs : FS) (roots : List Path) (p : Path) :
    p ∈ (roots.flatMap (visit fs)).map Prod.fst ↔ (roots.any (fun r => watched r p) = true ∧ p ∈ keys fs) := by
  simp only [List.mem_map, List.mem_flatMap, visit, List.mem_filter, List.any_eq_true, keys]
  constructor
  · rintro ⟨e, ⟨r, hr, he, hw⟩, rfl⟩
    exact ⟨⟨r, hr, hw⟩, e, he, rfl⟩
  · rintro ⟨⟨r, hr, hw⟩, e, he, rfl⟩
    exact ⟨e, ⟨r, hr, he, hw⟩, rfl⟩

end Xdist.Looponfail
